(* Proofs/C12_Nav.v - lemmas about Model/C12_Nav.v *)
From Coq Require Import Ascii String List Bool Arith ZArith QArith Qround Qabs Lia Lqa.
From Verif Require Import Lib.Text Lib.Dyadic Lib.C12_ExpFormat Model.C12_Nav Gen.C12_Tables.
Import ListNotations.
Local Open Scope nat_scope.
Local Open Scope string_scope.

(* ------------------------------------------------------------------ finite facts about the epoch columns *)
Definition below (n : nat) (p : nat -> bool) : bool := forallb p (seq 0 n).
Lemma below_spec n p : below n p = true -> forall k, k < n -> p k = true.
Proof.
  unfold below. intros H k Hk. rewrite forallb_forall in H. apply H. apply in_seq. lia.
Qed.

Definition two_ok (n : nat) : bool :=
  String.eqb (strip (two n)) (two n) && String.eqb (zfill 2 (two n)) (two n)
  && match parse_int (two n) with Some z => Z.eqb z (Z.of_nat n) | None => false end.
Lemma two_ok_all : below 100 two_ok = true.
Proof. vm_compute. reflexivity. Qed.

Definition pad2_ok (n : nat) : bool :=
  String.eqb (zfill 2 (strip (pad2 n))) (two n)
  && match parse_int (strip (String " " (pad2 n))) with Some z => Z.eqb z (Z.of_nat n) | None => false end.
Lemma pad2_ok_all : below 100 pad2_ok = true.
Proof. vm_compute. reflexivity. Qed.

Definition four_ok (n : nat) : bool :=
  match parse_int (strip (four n)) with Some z => Z.eqb z (Z.of_nat n) | None => false end.
Lemma four_ok_all : below 10000 four_ok = true.
Proof. vm_compute. reflexivity. Qed.

Definition f51_ok (t : nat) : bool :=
  Nat.eqb (len (f51 t)) 5 &&
  match parse_float false (strip (f51 t)) with Some d => dec_eqb d (Z.of_nat t, (-1)%Z) | None => false end.
Lemma f51_ok_all : below 1000 f51_ok = true.
Proof. vm_compute. reflexivity. Qed.

Definition sec3_ok (s : nat) : bool :=
  match parse_float false (strip (two s)) with Some d => dec_eqb d (Z.of_nat s, 0%Z) | None => false end.
Lemma sec3_ok_all : below 100 sec3_ok = true.
Proof. vm_compute. reflexivity. Qed.

(* v2 year: yy -> 19yy for 80..99, 20yy otherwise *)
Definition year2_txt_ok (y : nat) (txt : string) : bool :=
  match parse_int txt with
  | Some yy =>
      let century := if ((80 <=? yy) && (yy <=? 99))%Z then "19" else "20" in
      match parse_int (century ++ zfill 2 txt) with Some z => Z.eqb z (Z.of_nat y) | None => false end
  | None => false
  end.
Definition year2_ok (y : nat) : bool :=
  year2_txt_ok y (strip (String " " (two (y mod 100)))) && year2_txt_ok y (strip (String " " (pad2 (y mod 100)))).
Lemma year2_ok_all : forallb year2_ok (seq 1980 100) = true.
Proof. vm_compute. reflexivity. Qed.

Lemma dec_eqb_eq a b : dec_eqb a b = true -> a = b.
Proof.
  destruct a, b. unfold dec_eqb. simpl. intros H. apply andb_prop in H. destruct H as [H1 H2].
  apply Z.eqb_eq in H1. apply Z.eqb_eq in H2. subst. reflexivity.
Qed.

(* ------------------------------------------------------------------------------ one 19-character column *)
Definition field_wf (ok : bool) (o : option num) : bool :=
  match o with Some n => num_wf ok n && (len (core n) <=? fw)%nat | None => true end.

Lemma nav_float_core ok n : num_wf ok n = true -> nav_float ok (core n) = Some (num_dec n).
Proof.
  intros H. pose proof (nav_float_render ok 0 n H) as P.
  unfold render_num, rjust, rjust_with in P. simpl in P.
  rewrite (strip_trimmed _ (core_trimmed ok n H)) in P. exact P.
Qed.

Lemma len_render_field ok o : field_wf ok o = true -> len (render_field o) = fw.
Proof.
  destruct o as [n|]; cbn [field_wf render_field]; intros H.
  - apply andb_prop in H. destruct H as [_ H]. apply Nat.leb_le in H.
    unfold render_num. apply len_rjust. exact H.
  - unfold render_field. apply len_spaces.
Qed.

Lemma nav_float_field ok o pre :
  field_wf ok o = true -> all_space pre = true ->
  nav_float ok (strip (pre ++ render_field o)) = Some (num_val o).
Proof.
  destruct o as [n|]; cbn [field_wf render_field num_val]; intros H Hp.
  - apply andb_prop in H. destruct H as [H _].
    unfold render_num, rjust, rjust_with.
    replace (pre ++ rep " " (fw - len (core n)) ++ core n)
      with ((pre ++ rep " " (fw - len (core n))) ++ core n ++ "")
      by (rewrite Text.app_nil_r, Text.app_assoc; reflexivity).
    rewrite strip_pad.
    + apply nav_float_core. exact H.
    + unfold all_space. rewrite all_by_app. unfold all_space in Hp. rewrite Hp. simpl.
      apply all_by_rep. reflexivity.
    + reflexivity.
    + apply (core_trimmed ok). exact H.
  - rewrite strip_all_space; [reflexivity|].
    unfold all_space in *. rewrite all_by_app, Hp. cbn [andb]. apply all_space_spaces.
Qed.

Lemma cut_rstrip l f : cut (rstrip l) f = cut l f.
Proof. unfold cut. rewrite slice_rstrip. reflexivity. Qed.

Lemma map_cut_rstrip l fs : map (cut (rstrip l)) fs = map (cut l) fs.
Proof. apply map_ext. intros f. apply cut_rstrip. Qed.

Lemma floats_fields ok : forall names nums pre first,
  length names = length nums -> forallb (field_wf ok) nums = true ->
  (first = true -> all_space pre = true) ->
  floats ok (map (cut (pre ++ cat (map render_field nums))) (layout_fields names (len pre) first))
  = Some (combine names (map num_val nums)).
Proof.
  induction names as [|n ns IH]; intros nums pre first Hl Hw Hf.
  - destruct nums; [reflexivity|discriminate].
  - destruct nums as [|x xs]; [discriminate|].
    simpl in Hl. injection Hl as Hl. simpl in Hw. apply andb_prop in Hw. destruct Hw as [Hx Hxs].
    pose proof (len_render_field ok x Hx) as Lx.
    cbn [map cat layout_fields floats combine].
    assert (E1 : snd (cut (pre ++ render_field x ++ cat (map render_field xs))
                          (n, (if first then 0 else len pre, len pre + fw)))
                 = strip ((if first then pre else "") ++ render_field x)).
    { unfold cut. cbn [fst snd]. destruct first.
      - rewrite <- Text.app_assoc. rewrite <- Lx, <- len_app. rewrite slice_0_len. reflexivity.
      - rewrite <- Lx. rewrite slice_app_mid. reflexivity. }
    unfold cut at 1. cbn [fst snd]. unfold cut in E1. cbn [fst snd] in E1. rewrite E1.
    rewrite (nav_float_field ok x _ Hx); [|destruct first; [apply Hf; reflexivity|reflexivity]].
    specialize (IH xs (pre ++ render_field x) false Hl Hxs).
    rewrite len_app, Lx in IH. rewrite Text.app_assoc in IH.
    rewrite IH; [reflexivity|discriminate].
Qed.

Theorem nav_obs_line_roundtrip ok v names nums :
  length names = length nums -> forallb (field_wf ok) nums = true ->
  floats ok (map (cut (rstrip (spaces (lead v) ++ cat (map render_field nums)))) (layout_fields names (lead v) true))
  = Some (combine names (map num_val nums)).
Proof.
  intros Hl Hw. rewrite map_cut_rstrip.
  pose proof (floats_fields ok names nums (spaces (lead v)) true Hl Hw (fun _ => all_space_spaces _)) as P.
  rewrite len_spaces in P. exact P.
Qed.

(* ------------------------------------------------------------------------------ character facts *)
Lemma alpha_not_space c : is_alpha c = true -> is_space c = false.
Proof. destruct c as [[] [] [] [] [] [] [] []]; try reflexivity; discriminate. Qed.
Lemma digit_not_alpha c : is_digit c = true -> is_alpha c = false.
Proof. destruct c as [[] [] [] [] [] [] [] []]; try reflexivity; discriminate. Qed.

Lemma strip_char c : is_space c = false -> strip (String c "") = String c "".
Proof.
  intros H. apply strip_trimmed. unfold trimmed, trimmed_by, ltrimmed. simpl. rewrite H. reflexivity.
Qed.

Lemma last_char_app a s : s <> "" -> last_char (a ++ s) = last_char s.
Proof.
  intros Hs. induction a as [|c a IH]; [reflexivity|].
  simpl. destruct (a ++ s) eqn:E.
  - destruct a; simpl in E; [congruence|discriminate].
  - exact IH.
Qed.

Lemma last_char_digits s : s <> "" -> all_by is_digit s = true ->
  exists c, last_char s = Some c /\ is_digit c = true.
Proof.
  induction s as [|c s IH]; [congruence|]. intros _ H. simpl in H. apply andb_prop in H. destruct H as [Hc Hs].
  destruct s as [|c' s'].
  - exists c. split; [reflexivity|exact Hc].
  - destruct (IH ltac:(discriminate) Hs) as [d [E D]]. exists d. split; [exact E|exact D].
Qed.

(* the "header line in between" test never fires on a column of the format *)
Lemma early_exit_last ok o :
  field_wf ok o = true -> early_exit spec_q (last_char (strip (render_field o))) = None.
Proof.
  destruct o as [n|]; cbn [field_wf render_field]; intros H.
  - apply andb_prop in H. destruct H as [H _].
    unfold render_num. rewrite (strip_rjust _ _ (core_trimmed ok n H)).
    unfold num_wf in H. repeat (apply andb_prop in H; destruct H as [H ?]).
    unfold core. rewrite <- !Text.app_assoc.
    assert (Hne : n_exp n <> "") by (destruct (n_exp n); [discriminate|discriminate]).
    rewrite (last_char_app _ _ Hne).
    destruct (last_char_digits _ Hne H3) as [c [E D]]. rewrite E. simpl.
    rewrite (digit_not_alpha c D). reflexivity.
  - rewrite strip_all_space by apply all_space_spaces. reflexivity.
Qed.

Lemma early_exit_first ok o :
  field_wf ok o = true -> early_exit spec_q (first_char (strip (render_field o))) = None.
Proof.
  destruct o as [n|]; cbn [field_wf render_field]; intros H.
  - apply andb_prop in H. destruct H as [H _].
    unfold render_num. rewrite (strip_rjust _ _ (core_trimmed ok n H)).
    unfold num_wf in H. repeat (apply andb_prop in H; destruct H as [H ?]).
    unfold core. destruct (n_neg n); [reflexivity|]. simpl.
    destruct (n_ip n) as [|c s]; [reflexivity|].
    simpl in H. apply andb_prop in H. destruct H as [H _]. simpl. rewrite (digit_not_alpha c H). reflexivity.
  - rewrite strip_all_space by apply all_space_spaces. reflexivity.
Qed.

(* ------------------------------------------------------------------------------ the epoch line *)
Lemma parse_epoch3_kv sys prn y mo d h mi s b dr rt Y MO D H MI S cl :
  early_exit spec_q (last_char dr) = None ->
  mem sys ["S"; "R"] = false ->
  parse_int y = Some Y -> parse_int mo = Some MO -> parse_int d = Some D -> parse_int h = Some H ->
  parse_int mi = Some MI -> parse_float false s = Some S ->
  floats true [("sat_clock_bias", b); ("sat_clock_drift", dr); ("sat_clock_drift_rate", rt)] = Some cl ->
  parse_epoch3 spec_q
    [("system", sys); ("sat_num", prn); ("year", y); ("month", mo); ("day", d); ("hour", h); ("minute", mi);
     ("second", s); ("sat_clock_bias", b); ("sat_clock_drift", dr); ("sat_clock_drift_rate", rt)]
  = RRec (mkP sys (sys ++ zfill 2 prn) (Y, MO, D, H, MI) S cl).
Proof.
  intros He Hm Hy Hmo Hd Hh Hmi Hs Hcl.
  unfold parse_epoch3, epoch_fields, clock_floats. cbn [alookup String.eqb Ascii.eqb Bool.eqb bind].
  rewrite He, Hm. cbn [bind]. rewrite Hy. cbn [bind]. rewrite Hmo. cbn [bind]. rewrite Hd. cbn [bind].
  rewrite Hh. cbn [bind]. rewrite Hmi. cbn [bind]. rewrite Hs. cbn [bind negb q_lower_d spec_q]. rewrite Hcl.
  reflexivity.
Qed.

Lemma parse_epoch2_kv sys2 prn y mo d h mi s b dr rt YY Y MO D H MI S cl :
  early_exit spec_q (first_char rt) = None ->
  parse_int y = Some YY ->
  parse_int ((if ((80 <=? YY) && (YY <=? 99))%Z then "19" else "20") ++ zfill 2 y) = Some Y ->
  parse_int mo = Some MO -> parse_int d = Some D -> parse_int h = Some H ->
  parse_int mi = Some MI -> parse_float false s = Some S ->
  floats true [("sat_clock_bias", b); ("sat_clock_drift", dr); ("sat_clock_drift_rate", rt)] = Some cl ->
  parse_epoch2 spec_q sys2
    [("sat", prn); ("year", y); ("month", mo); ("day", d); ("hour", h); ("minute", mi);
     ("second", s); ("sat_clock_bias", b); ("sat_clock_drift", dr); ("sat_clock_drift_rate", rt)]
  = RRec (mkP (take 1 (sys2 ++ zfill 2 prn)) (sys2 ++ zfill 2 prn) (Y, MO, D, H, MI) S cl).
Proof.
  intros He Hyy Hy Hmo Hd Hh Hmi Hs Hcl.
  unfold parse_epoch2, epoch_fields, clock_floats. cbn [alookup String.eqb Ascii.eqb Bool.eqb bind].
  rewrite He. cbn [bind]. unfold year_v2. rewrite Hyy. cbn [bind]. rewrite Hy. cbn [bind]. rewrite Hmo. cbn [bind]. rewrite Hd. cbn [bind].
  rewrite Hh. cbn [bind]. rewrite Hmi. cbn [bind]. rewrite Hs. cbn [bind negb q_lower_d spec_q]. rewrite Hcl.
  reflexivity.
Qed.

(* ------------------------------------------------------------------------------ one record *)
Lemma obs_step ok v t ln l rest p names nums :
  tlookup ln t = Some (layout_fields names (lead v) true) ->
  l = spaces (lead v) ++ cat (map render_field nums) ->
  length names = length nums -> forallb (field_wf ok) nums = true ->
  obs_lines ok t ln (l :: rest) p
  = obs_lines ok t (S ln) rest
      (mkP (p_sys p) (p_sat p) (p_civil p) (p_sec p) (p_vals p ++ combine names (map num_val nums))%list).
Proof.
  intros Ht El Hl Hw. cbn [obs_lines]. rewrite Ht, El, (nav_obs_line_roundtrip ok v names nums Hl Hw). reflexivity.
Qed.

Lemma slice_third a f g h (n : nat) :
  len f = n -> len g = n ->
  slice (len a + n) (len a + n + n) (a ++ f ++ g ++ h) = g.
Proof.
  intros Hf Hg.
  replace (a ++ f ++ g ++ h) with ((a ++ f) ++ g ++ h) by (rewrite Text.app_assoc; reflexivity).
  replace (len a + n) with (len (a ++ f)) by (rewrite len_app, Hf; reflexivity).
  rewrite <- Hg. apply slice_app_mid.
Qed.

Lemma slice_fourth a f g h k (n : nat) :
  len f = n -> len g = n -> len h = n ->
  slice (len a + n + n) (len a + n + n + n) (a ++ f ++ g ++ h ++ k) = h.
Proof.
  intros Hf Hg Hh.
  replace (a ++ f ++ g ++ h ++ k) with ((a ++ f ++ g) ++ h ++ k) by (rewrite !Text.app_assoc; reflexivity).
  replace (len a + n + n) with (len (a ++ f ++ g)) by (rewrite !len_app, Hf, Hg; lia).
  rewrite <- Hh. apply slice_app_mid.
Qed.

Ltac split_all :=
  repeat match goal with H : (_ && _) = true |- _ => apply andb_prop in H; destruct H end.
Ltac ltb_hyp := apply Nat.ltb_lt; assumption.
Ltac wf_list := cbn [forallb]; unfold field_wf;
  repeat match goal with H : match _ with Some _ => _ | None => _ end = true |- _ => rewrite H end; reflexivity.

Ltac destr_nums29 Hlen nums :=
  do 29 (destruct nums as [|? nums]; [discriminate Hlen|]); destruct nums; [|discriminate Hlen].
Ltac destr_nums15 Hlen nums :=
  do 15 (destruct nums as [|? nums]; [discriminate Hlen|]); destruct nums; [|discriminate Hlen].

Lemma lt100 n : (n <? 100)%nat = true -> n < 100.
Proof. apply Nat.ltb_lt. Qed.

Lemma two_facts n : n < 100 ->
  strip (two n) = two n /\ zfill 2 (two n) = two n /\ parse_int (two n) = Some (Z.of_nat n).
Proof.
  intros H. pose proof (below_spec _ _ two_ok_all n H) as P. unfold two_ok in P.
  apply andb_prop in P. destruct P as [P P3]. apply andb_prop in P. destruct P as [P1 P2].
  apply String.eqb_eq in P1. apply String.eqb_eq in P2.
  destruct (parse_int (two n)); [|discriminate]. apply Z.eqb_eq in P3. subst. auto.
Qed.

Lemma record_rt_v3 r sys2 :
  nrec_wf V3 true r = true -> skipped r = false ->
  parse_record V3 spec_q sys2 (layout V3) (render_record V3 r) = RRec (prec_of V3 sys2 r).
Proof.
  destruct r as [sys prn y mo d h mi s10 nums extra yb].
  unfold nrec_wf, skipped. cbn [r_sys r_prn r_year r_month r_day r_hour r_min r_sec10 r_nums r_extra r_yblank is_v3].
  intros Hwf Hsk. rewrite Hsk in Hwf. split_all.
  assert (Hextra : extra = 7) by (apply Nat.eqb_eq; assumption). subst extra.
  assert (Hlen : length nums = 29) by (apply Nat.eqb_eq; assumption).
  assert (Hprn : prn < 100) by ltb_hyp. assert (Hmo : mo < 100) by ltb_hyp. assert (Hd : d < 100) by ltb_hyp.
  assert (Hh : h < 100) by ltb_hyp. assert (Hmi : mi < 100) by ltb_hyp. assert (Hs : s10 < 1000) by ltb_hyp.
  assert (Hy : y < 10000) by ltb_hyp.
  destr_nums29 Hlen nums.
  destruct sys as [|c [|c' sys']]; try discriminate.
  assert (Hc : is_alpha c = true) by assumption.
  match goal with H : forallb _ _ = true |- _ => cbn [forallb] in H; fold (field_wf true) in H end.
  split_all.
  unfold parse_record, render_record.
  cbn [r_sys r_prn r_year r_month r_day r_hour r_min r_sec10 r_nums r_extra r_yblank is_v3 lead firstn skipn cont_lines].
  change (tlookup 1 (layout V3)) with (Some (epoch_defs V3 ++ layout_fields clock_names 23 false)%list).
  cbv beta iota. rewrite map_cut_rstrip.
  set (E := epoch_text V3 (mkN (String c "") prn y mo d h mi s10
     [o; o0; o1; o2; o3; o4; o5; o6; o7; o8; o9; o10; o11; o12; o13; o14; o15; o16; o17; o18; o19; o20; o21; o22; o23; o24; o25; o26; o27] 7 yb)).
  assert (F0 : field_wf true o = true) by assumption.
  assert (F1 : field_wf true o0 = true) by assumption.
  assert (F2 : field_wf true o1 = true) by assumption.
  pose proof (len_render_field true o F0) as L0.
  pose proof (len_render_field true o0 F1) as L1.
  pose proof (len_render_field true o1 F2) as L2.
  assert (LE : len E = 23) by reflexivity.
  (* the clock columns *)
  assert (Hcl : floats true [("sat_clock_bias", strip (slice 23 42 (E ++ cat (map render_field [o; o0; o1]))));
                             ("sat_clock_drift", strip (slice 42 61 (E ++ cat (map render_field [o; o0; o1]))));
                             ("sat_clock_drift_rate", strip (slice 61 80 (E ++ cat (map render_field [o; o0; o1]))))]
                = Some (combine clock_names (map num_val [o; o0; o1]))).
  { refine (floats_fields true clock_names [o; o0; o1] E false eq_refl _ _).
    - cbn [forallb]. rewrite F0, F1, F2. reflexivity.
    - discriminate. }
  assert (Hdr : slice 42 61 (E ++ cat (map render_field [o; o0; o1])) = render_field o0).
  { cbn [map cat]. exact (slice_third E _ _ _ 19 L0 L1). }
  (* the epoch columns *)
  assert (Hkv : map (cut (E ++ cat (map render_field [o; o0; o1]))) (epoch_defs V3 ++ layout_fields clock_names 23 false)
          = [("system", strip (String c "")); ("sat_num", strip (two prn)); ("year", strip (four y));
             ("month", strip (two mo)); ("day", strip (two d)); ("hour", strip (two h)); ("minute", strip (two mi));
             ("second", strip (two (s10 / 10)));
             ("sat_clock_bias", strip (slice 23 42 (E ++ cat (map render_field [o; o0; o1]))));
             ("sat_clock_drift", strip (slice 42 61 (E ++ cat (map render_field [o; o0; o1]))));
             ("sat_clock_drift_rate", strip (slice 61 80 (E ++ cat (map render_field [o; o0; o1]))))]).
  { unfold cut. cbn [map epoch_defs is_v3 app fst snd layout_fields clock_names fw Nat.add].
    rewrite !(slice_app_left _ _ E) by (rewrite LE; repeat constructor).
    reflexivity. }
  rewrite Hkv. unfold parse_epoch. cbn [is_v3].
  destruct (two_facts prn Hprn) as [A1 [A2 A3]].
  destruct (two_facts mo Hmo) as [B1 [_ B3]].
  destruct (two_facts d Hd) as [C1 [_ C3]].
  destruct (two_facts h Hh) as [D1 [_ D3]].
  destruct (two_facts mi Hmi) as [E1 [_ E3]].
  assert (Hs10 : s10 / 10 < 100) by (apply Nat.div_lt_upper_bound; lia).
  pose proof (below_spec _ _ sec3_ok_all (s10 / 10) Hs10) as S3. unfold sec3_ok in S3.
  destruct (parse_float false (strip (two (s10 / 10)))) as [sd|] eqn:ES; [|discriminate].
  apply dec_eqb_eq in S3. subst sd.
  pose proof (below_spec _ _ four_ok_all y Hy) as Y4. unfold four_ok in Y4.
  destruct (parse_int (strip (four y))) as [yz|] eqn:EY; [|discriminate]. apply Z.eqb_eq in Y4. subst yz.
  rewrite (strip_char c (alpha_not_space c Hc)).
  rewrite (parse_epoch3_kv (String c "") (strip (two prn)) (strip (four y)) (strip (two mo)) (strip (two d))
             (strip (two h)) (strip (two mi)) (strip (two (s10 / 10))) _ _ _
             (Z.of_nat y) (Z.of_nat mo) (Z.of_nat d) (Z.of_nat h) (Z.of_nat mi) (Z.of_nat (s10 / 10), 0%Z)
             (combine clock_names (map num_val [o; o0; o1]))).
  2:{ rewrite Hdr. apply (early_exit_last true). exact F1. }
  2:{ cbn [mem existsb] in Hsk |- *. apply orb_false_iff in Hsk. destruct Hsk as [HR HS].
      apply orb_false_iff in HS. destruct HS as [HS _]. rewrite HR, HS. reflexivity. }
  2:{ exact EY. }
  2:{ rewrite B1. exact B3. }
  2:{ rewrite C1. exact C3. }
  2:{ rewrite D1. exact D3. }
  2:{ rewrite E1. exact E3. }
  2:{ exact ES. }
  2:{ exact Hcl. }
  (* the seven broadcast orbit lines *)
  cbn [q_lower_d spec_q negb].
  erewrite (obs_step true V3 (layout V3) 2 _ _ _ ["iode"; "crs"; "delta_n"; "m0"] [o2; o3; o4; o5]); [|reflexivity|reflexivity|reflexivity|wf_list]; cbn [p_sys p_sat p_civil p_sec p_vals app].
  erewrite (obs_step true V3 (layout V3) 3 _ _ _ ["cuc"; "e"; "cus"; "sqrt_a"] [o6; o7; o8; o9]); [|reflexivity|reflexivity|reflexivity|wf_list]; cbn [p_sys p_sat p_civil p_sec p_vals app].
  erewrite (obs_step true V3 (layout V3) 4 _ _ _ ["toe"; "cic"; "Omega"; "cis"] [o10; o11; o12; o13]); [|reflexivity|reflexivity|reflexivity|wf_list]; cbn [p_sys p_sat p_civil p_sec p_vals app].
  erewrite (obs_step true V3 (layout V3) 5 _ _ _ ["i0"; "crc"; "omega"; "Omega_dot"] [o14; o15; o16; o17]); [|reflexivity|reflexivity|reflexivity|wf_list]; cbn [p_sys p_sat p_civil p_sec p_vals app].
  erewrite (obs_step true V3 (layout V3) 6 _ _ _ ["idot"; "gnss_data_info"; "gnss_week"; "gnss_l2p_flag"] [o18; o19; o20; o21]); [|reflexivity|reflexivity|reflexivity|wf_list]; cbn [p_sys p_sat p_civil p_sec p_vals app].
  erewrite (obs_step true V3 (layout V3) 7 _ _ _ ["sv_accuracy"; "sv_health"; "gnss_tgd_bgd"; "gnss_iodc_groupdelay"] [o22; o23; o24; o25]); [|reflexivity|reflexivity|reflexivity|wf_list]; cbn [p_sys p_sat p_civil p_sec p_vals app].
  erewrite (obs_step true V3 (layout V3) 8 _ _ _ ["transmission_time"; "gnss_interval"] [o26; o27]); [|reflexivity|reflexivity|reflexivity|wf_list]; cbn [p_sys p_sat p_civil p_sec p_vals app].
  cbn [obs_lines p_sys p_sat p_civil p_sec p_vals].
  unfold prec_of. cbn [is_v3 r_sys r_prn r_year r_month r_day r_hour r_min r_sec10 r_nums].
  rewrite A1, A2. reflexivity.
Qed.

Lemma record_rt_v2_z r c2 :
  r_yblank r = false -> nrec_wf V2 true r = true -> skipped r = false ->
  parse_record V2 spec_q (String c2 "") (layout V2) (render_record V2 r) = RRec (prec_of V2 (String c2 "") r).
Proof.
  destruct r as [sys prn y mo d h mi s10 nums extra yb].
  unfold nrec_wf, skipped. cbn [r_sys r_prn r_year r_month r_day r_hour r_min r_sec10 r_nums r_extra r_yblank is_v3].
  intros Hyb Hwf Hsk. subst yb. rewrite Hsk in Hwf. split_all.
  assert (Hextra : extra = 7) by (apply Nat.eqb_eq; assumption). subst extra.
  assert (Hlen : length nums = 29) by (apply Nat.eqb_eq; assumption).
  assert (Hprn : prn < 100) by ltb_hyp. assert (Hmo : mo < 100) by ltb_hyp. assert (Hd : d < 100) by ltb_hyp.
  assert (Hh : h < 100) by ltb_hyp. assert (Hmi : mi < 100) by ltb_hyp. assert (Hs : s10 < 1000) by ltb_hyp.
  assert (Hy1 : 1980 <= y) by (apply Nat.leb_le; assumption).
  assert (Hy2 : y < 2080) by ltb_hyp.
  destr_nums29 Hlen nums.
  match goal with H : forallb _ _ = true |- _ => cbn [forallb] in H; fold (field_wf true) in H end.
  split_all.
  unfold parse_record, render_record.
  cbn [r_sys r_prn r_year r_month r_day r_hour r_min r_sec10 r_nums r_extra r_yblank is_v3 lead firstn skipn cont_lines].
  change (tlookup 1 (layout V2)) with (Some (epoch_defs V2 ++ layout_fields clock_names 22 false)%list).
  cbv beta iota. rewrite map_cut_rstrip.
  set (E := epoch_text V2 (mkN sys prn y mo d h mi s10
     [o; o0; o1; o2; o3; o4; o5; o6; o7; o8; o9; o10; o11; o12; o13; o14; o15; o16; o17; o18; o19; o20; o21; o22; o23; o24; o25; o26; o27] 7 false)).
  assert (F0 : field_wf true o = true) by assumption.
  assert (F1 : field_wf true o0 = true) by assumption.
  assert (F2 : field_wf true o1 = true) by assumption.
  pose proof (len_render_field true o F0) as L0.
  pose proof (len_render_field true o0 F1) as L1.
  pose proof (len_render_field true o1 F2) as L2.
  assert (LE : len E = 22) by reflexivity.
  assert (Hcl : floats true [("sat_clock_bias", strip (slice 22 41 (E ++ cat (map render_field [o; o0; o1]))));
                             ("sat_clock_drift", strip (slice 41 60 (E ++ cat (map render_field [o; o0; o1]))));
                             ("sat_clock_drift_rate", strip (slice 60 79 (E ++ cat (map render_field [o; o0; o1]))))]
                = Some (combine clock_names (map num_val [o; o0; o1]))).
  { refine (floats_fields true clock_names [o; o0; o1] E false eq_refl _ _).
    - cbn [forallb]. rewrite F0, F1, F2. reflexivity.
    - discriminate. }
  assert (Hrt : slice 60 79 (E ++ cat (map render_field [o; o0; o1])) = render_field o1).
  { cbn [map cat]. exact (slice_fourth E _ _ _ _ 19 L0 L1 L2). }
  assert (Hkv : map (cut (E ++ cat (map render_field [o; o0; o1]))) (epoch_defs V2 ++ layout_fields clock_names 22 false)
          = [("sat", strip (pad2 prn)); ("year", strip (String " " (two (y mod 100))));
             ("month", strip (String " " (pad2 mo))); ("day", strip (String " " (pad2 d)));
             ("hour", strip (String " " (pad2 h))); ("minute", strip (String " " (pad2 mi)));
             ("second", strip (f51 s10));
             ("sat_clock_bias", strip (slice 22 41 (E ++ cat (map render_field [o; o0; o1]))));
             ("sat_clock_drift", strip (slice 41 60 (E ++ cat (map render_field [o; o0; o1]))));
             ("sat_clock_drift_rate", strip (slice 60 79 (E ++ cat (map render_field [o; o0; o1]))))]).
  { unfold cut. cbn [map epoch_defs is_v3 app fst snd layout_fields clock_names fw Nat.add].
    rewrite !(slice_app_left _ _ E) by (rewrite LE; repeat constructor).
    reflexivity. }
  rewrite Hkv. unfold parse_epoch. cbn [is_v3].
  pose proof (below_spec _ _ pad2_ok_all prn Hprn) as P0. unfold pad2_ok in P0.
  apply andb_prop in P0. destruct P0 as [P0 _]. apply String.eqb_eq in P0.
  assert (PI : forall n, n < 100 -> parse_int (strip (String " " (pad2 n))) = Some (Z.of_nat n)).
  { intros n Hn. pose proof (below_spec _ _ pad2_ok_all n Hn) as Q. unfold pad2_ok in Q.
    apply andb_prop in Q. destruct Q as [_ Q].
    destruct (parse_int (strip (String " " (pad2 n)))); [|discriminate]. apply Z.eqb_eq in Q. subst. reflexivity. }
  pose proof (below_spec _ _ f51_ok_all s10 Hs) as S3. unfold f51_ok in S3.
  apply andb_prop in S3. destruct S3 as [_ S3].
  destruct (parse_float false (strip (f51 s10))) as [sd|] eqn:ES; [|discriminate].
  apply dec_eqb_eq in S3. subst sd.
  assert (Hyin : In y (seq 1980 100)) by (apply in_seq; lia).
  pose proof (proj1 (forallb_forall _ _) year2_ok_all y Hyin) as Y2. unfold year2_ok in Y2. apply andb_prop in Y2. destruct Y2 as [Y2z Y2b]. clear Y2b. rename Y2z into Y2. unfold year2_txt_ok in Y2.
  destruct (parse_int (strip (String " " (two (y mod 100))))) as [yy|] eqn:EYY; [|discriminate].
  destruct (parse_int ((if ((80 <=? yy)%Z && (yy <=? 99)%Z) then "19" else "20")
                         ++ zfill 2 (strip (String " " (two (y mod 100)))))) as [yz|] eqn:EY; [|discriminate].
  apply Z.eqb_eq in Y2. subst yz.
  rewrite (parse_epoch2_kv (String c2 "") (strip (pad2 prn)) (strip (String " " (two (y mod 100))))
             (strip (String " " (pad2 mo))) (strip (String " " (pad2 d))) (strip (String " " (pad2 h)))
             (strip (String " " (pad2 mi))) (strip (f51 s10)) _ _ _
             yy (Z.of_nat y) (Z.of_nat mo) (Z.of_nat d) (Z.of_nat h) (Z.of_nat mi) (Z.of_nat s10, (-1)%Z)
             (combine clock_names (map num_val [o; o0; o1]))).
  2:{ rewrite Hrt. apply (early_exit_first true). exact F2. }
  2:{ exact EYY. }
  2:{ exact EY. }
  2:{ apply PI. exact Hmo. }
  2:{ apply PI. exact Hd. }
  2:{ apply PI. exact Hh. }
  2:{ apply PI. exact Hmi. }
  2:{ exact ES. }
  2:{ exact Hcl. }
  cbn [q_lower_d spec_q negb].
  erewrite (obs_step true V2 (layout V2) 2 _ _ _ ["iode"; "crs"; "delta_n"; "m0"] [o2; o3; o4; o5]); [|reflexivity|reflexivity|reflexivity|wf_list]; cbn [p_sys p_sat p_civil p_sec p_vals app].
  erewrite (obs_step true V2 (layout V2) 3 _ _ _ ["cuc"; "e"; "cus"; "sqrt_a"] [o6; o7; o8; o9]); [|reflexivity|reflexivity|reflexivity|wf_list]; cbn [p_sys p_sat p_civil p_sec p_vals app].
  erewrite (obs_step true V2 (layout V2) 4 _ _ _ ["toe"; "cic"; "Omega"; "cis"] [o10; o11; o12; o13]); [|reflexivity|reflexivity|reflexivity|wf_list]; cbn [p_sys p_sat p_civil p_sec p_vals app].
  erewrite (obs_step true V2 (layout V2) 5 _ _ _ ["i0"; "crc"; "omega"; "Omega_dot"] [o14; o15; o16; o17]); [|reflexivity|reflexivity|reflexivity|wf_list]; cbn [p_sys p_sat p_civil p_sec p_vals app].
  erewrite (obs_step true V2 (layout V2) 6 _ _ _ ["idot"; "gnss_data_info"; "gnss_week"; "gnss_l2p_flag"] [o18; o19; o20; o21]); [|reflexivity|reflexivity|reflexivity|wf_list]; cbn [p_sys p_sat p_civil p_sec p_vals app].
  erewrite (obs_step true V2 (layout V2) 7 _ _ _ ["sv_accuracy"; "sv_health"; "gnss_tgd_bgd"; "gnss_iodc_groupdelay"] [o22; o23; o24; o25]); [|reflexivity|reflexivity|reflexivity|wf_list]; cbn [p_sys p_sat p_civil p_sec p_vals app].
  erewrite (obs_step true V2 (layout V2) 8 _ _ _ ["transmission_time"; "gnss_interval"] [o26; o27]); [|reflexivity|reflexivity|reflexivity|wf_list]; cbn [p_sys p_sat p_civil p_sec p_vals app].
  cbn [obs_lines p_sys p_sat p_civil p_sec p_vals].
  unfold prec_of. cbn [is_v3 r_sys r_prn r_year r_month r_day r_hour r_min r_sec10 r_nums].
  rewrite P0. reflexivity.
Qed.

Lemma record_rt_v2_b r c2 :
  r_yblank r = true -> nrec_wf V2 true r = true -> skipped r = false ->
  parse_record V2 spec_q (String c2 "") (layout V2) (render_record V2 r) = RRec (prec_of V2 (String c2 "") r).
Proof.
  destruct r as [sys prn y mo d h mi s10 nums extra yb].
  unfold nrec_wf, skipped. cbn [r_sys r_prn r_year r_month r_day r_hour r_min r_sec10 r_nums r_extra r_yblank is_v3].
  intros Hyb Hwf Hsk. subst yb. rewrite Hsk in Hwf. split_all.
  assert (Hextra : extra = 7) by (apply Nat.eqb_eq; assumption). subst extra.
  assert (Hlen : length nums = 29) by (apply Nat.eqb_eq; assumption).
  assert (Hprn : prn < 100) by ltb_hyp. assert (Hmo : mo < 100) by ltb_hyp. assert (Hd : d < 100) by ltb_hyp.
  assert (Hh : h < 100) by ltb_hyp. assert (Hmi : mi < 100) by ltb_hyp. assert (Hs : s10 < 1000) by ltb_hyp.
  assert (Hy1 : 1980 <= y) by (apply Nat.leb_le; assumption).
  assert (Hy2 : y < 2080) by ltb_hyp.
  destr_nums29 Hlen nums.
  match goal with H : forallb _ _ = true |- _ => cbn [forallb] in H; fold (field_wf true) in H end.
  split_all.
  unfold parse_record, render_record.
  cbn [r_sys r_prn r_year r_month r_day r_hour r_min r_sec10 r_nums r_extra r_yblank is_v3 lead firstn skipn cont_lines].
  change (tlookup 1 (layout V2)) with (Some (epoch_defs V2 ++ layout_fields clock_names 22 false)%list).
  cbv beta iota. rewrite map_cut_rstrip.
  set (E := epoch_text V2 (mkN sys prn y mo d h mi s10
     [o; o0; o1; o2; o3; o4; o5; o6; o7; o8; o9; o10; o11; o12; o13; o14; o15; o16; o17; o18; o19; o20; o21; o22; o23; o24; o25; o26; o27] 7 true)).
  assert (F0 : field_wf true o = true) by assumption.
  assert (F1 : field_wf true o0 = true) by assumption.
  assert (F2 : field_wf true o1 = true) by assumption.
  pose proof (len_render_field true o F0) as L0.
  pose proof (len_render_field true o0 F1) as L1.
  pose proof (len_render_field true o1 F2) as L2.
  assert (LE : len E = 22) by reflexivity.
  assert (Hcl : floats true [("sat_clock_bias", strip (slice 22 41 (E ++ cat (map render_field [o; o0; o1]))));
                             ("sat_clock_drift", strip (slice 41 60 (E ++ cat (map render_field [o; o0; o1]))));
                             ("sat_clock_drift_rate", strip (slice 60 79 (E ++ cat (map render_field [o; o0; o1]))))]
                = Some (combine clock_names (map num_val [o; o0; o1]))).
  { refine (floats_fields true clock_names [o; o0; o1] E false eq_refl _ _).
    - cbn [forallb]. rewrite F0, F1, F2. reflexivity.
    - discriminate. }
  assert (Hrt : slice 60 79 (E ++ cat (map render_field [o; o0; o1])) = render_field o1).
  { cbn [map cat]. exact (slice_fourth E _ _ _ _ 19 L0 L1 L2). }
  assert (Hkv : map (cut (E ++ cat (map render_field [o; o0; o1]))) (epoch_defs V2 ++ layout_fields clock_names 22 false)
          = [("sat", strip (pad2 prn)); ("year", strip (String " " (pad2 (y mod 100))));
             ("month", strip (String " " (pad2 mo))); ("day", strip (String " " (pad2 d)));
             ("hour", strip (String " " (pad2 h))); ("minute", strip (String " " (pad2 mi)));
             ("second", strip (f51 s10));
             ("sat_clock_bias", strip (slice 22 41 (E ++ cat (map render_field [o; o0; o1]))));
             ("sat_clock_drift", strip (slice 41 60 (E ++ cat (map render_field [o; o0; o1]))));
             ("sat_clock_drift_rate", strip (slice 60 79 (E ++ cat (map render_field [o; o0; o1]))))]).
  { unfold cut. cbn [map epoch_defs is_v3 app fst snd layout_fields clock_names fw Nat.add].
    rewrite !(slice_app_left _ _ E) by (rewrite LE; repeat constructor).
    reflexivity. }
  rewrite Hkv. unfold parse_epoch. cbn [is_v3].
  pose proof (below_spec _ _ pad2_ok_all prn Hprn) as P0. unfold pad2_ok in P0.
  apply andb_prop in P0. destruct P0 as [P0 _]. apply String.eqb_eq in P0.
  assert (PI : forall n, n < 100 -> parse_int (strip (String " " (pad2 n))) = Some (Z.of_nat n)).
  { intros n Hn. pose proof (below_spec _ _ pad2_ok_all n Hn) as Q. unfold pad2_ok in Q.
    apply andb_prop in Q. destruct Q as [_ Q].
    destruct (parse_int (strip (String " " (pad2 n)))); [|discriminate]. apply Z.eqb_eq in Q. subst. reflexivity. }
  pose proof (below_spec _ _ f51_ok_all s10 Hs) as S3. unfold f51_ok in S3.
  apply andb_prop in S3. destruct S3 as [_ S3].
  destruct (parse_float false (strip (f51 s10))) as [sd|] eqn:ES; [|discriminate].
  apply dec_eqb_eq in S3. subst sd.
  assert (Hyin : In y (seq 1980 100)) by (apply in_seq; lia).
  pose proof (proj1 (forallb_forall _ _) year2_ok_all y Hyin) as Y2. unfold year2_ok in Y2. apply andb_prop in Y2. destruct Y2 as [Y2z Y2b]. clear Y2z. rename Y2b into Y2. unfold year2_txt_ok in Y2.
  destruct (parse_int (strip (String " " (pad2 (y mod 100))))) as [yy|] eqn:EYY; [|discriminate].
  destruct (parse_int ((if ((80 <=? yy)%Z && (yy <=? 99)%Z) then "19" else "20")
                         ++ zfill 2 (strip (String " " (pad2 (y mod 100)))))) as [yz|] eqn:EY; [|discriminate].
  apply Z.eqb_eq in Y2. subst yz.
  rewrite (parse_epoch2_kv (String c2 "") (strip (pad2 prn)) (strip (String " " (pad2 (y mod 100))))
             (strip (String " " (pad2 mo))) (strip (String " " (pad2 d))) (strip (String " " (pad2 h)))
             (strip (String " " (pad2 mi))) (strip (f51 s10)) _ _ _
             yy (Z.of_nat y) (Z.of_nat mo) (Z.of_nat d) (Z.of_nat h) (Z.of_nat mi) (Z.of_nat s10, (-1)%Z)
             (combine clock_names (map num_val [o; o0; o1]))).
  2:{ rewrite Hrt. apply (early_exit_first true). exact F2. }
  2:{ exact EYY. }
  2:{ exact EY. }
  2:{ apply PI. exact Hmo. }
  2:{ apply PI. exact Hd. }
  2:{ apply PI. exact Hh. }
  2:{ apply PI. exact Hmi. }
  2:{ exact ES. }
  2:{ exact Hcl. }
  cbn [q_lower_d spec_q negb].
  erewrite (obs_step true V2 (layout V2) 2 _ _ _ ["iode"; "crs"; "delta_n"; "m0"] [o2; o3; o4; o5]); [|reflexivity|reflexivity|reflexivity|wf_list]; cbn [p_sys p_sat p_civil p_sec p_vals app].
  erewrite (obs_step true V2 (layout V2) 3 _ _ _ ["cuc"; "e"; "cus"; "sqrt_a"] [o6; o7; o8; o9]); [|reflexivity|reflexivity|reflexivity|wf_list]; cbn [p_sys p_sat p_civil p_sec p_vals app].
  erewrite (obs_step true V2 (layout V2) 4 _ _ _ ["toe"; "cic"; "Omega"; "cis"] [o10; o11; o12; o13]); [|reflexivity|reflexivity|reflexivity|wf_list]; cbn [p_sys p_sat p_civil p_sec p_vals app].
  erewrite (obs_step true V2 (layout V2) 5 _ _ _ ["i0"; "crc"; "omega"; "Omega_dot"] [o14; o15; o16; o17]); [|reflexivity|reflexivity|reflexivity|wf_list]; cbn [p_sys p_sat p_civil p_sec p_vals app].
  erewrite (obs_step true V2 (layout V2) 6 _ _ _ ["idot"; "gnss_data_info"; "gnss_week"; "gnss_l2p_flag"] [o18; o19; o20; o21]); [|reflexivity|reflexivity|reflexivity|wf_list]; cbn [p_sys p_sat p_civil p_sec p_vals app].
  erewrite (obs_step true V2 (layout V2) 7 _ _ _ ["sv_accuracy"; "sv_health"; "gnss_tgd_bgd"; "gnss_iodc_groupdelay"] [o22; o23; o24; o25]); [|reflexivity|reflexivity|reflexivity|wf_list]; cbn [p_sys p_sat p_civil p_sec p_vals app].
  erewrite (obs_step true V2 (layout V2) 8 _ _ _ ["transmission_time"; "gnss_interval"] [o26; o27]); [|reflexivity|reflexivity|reflexivity|wf_list]; cbn [p_sys p_sat p_civil p_sec p_vals app].
  cbn [obs_lines p_sys p_sat p_civil p_sec p_vals].
  unfold prec_of. cbn [is_v3 r_sys r_prn r_year r_month r_day r_hour r_min r_sec10 r_nums].
  rewrite P0. reflexivity.
Qed.

Lemma record_rt_v2 r c2 :
  nrec_wf V2 true r = true -> skipped r = false ->
  parse_record V2 spec_q (String c2 "") (layout V2) (render_record V2 r) = RRec (prec_of V2 (String c2 "") r).
Proof.
  destruct (r_yblank r) eqn:E; [apply record_rt_v2_b|apply record_rt_v2_z]; exact E.
Qed.

Lemma record_rt_v212 r c2 :
  nrec_wf V212 true r = true -> skipped r = false ->
  parse_record V212 spec_q (String c2 "") (layout V212) (render_record V212 r) = RRec (prec_of V212 (String c2 "") r).
Proof. exact (record_rt_v2 r c2). Qed.

(* GLONASS / SBAS records: nothing is stored *)
Lemma record_skip_v3 r sys2 :
  nrec_wf V3 true r = true -> skipped r = true ->
  parse_record V3 spec_q sys2 (layout V3) (render_record V3 r) = RSkip.
Proof.
  destruct r as [sys prn y mo d h mi s10 nums extra yb].
  unfold nrec_wf, skipped. cbn [r_sys r_prn r_year r_month r_day r_hour r_min r_sec10 r_nums r_extra r_yblank is_v3].
  intros Hwf Hsk. rewrite Hsk in Hwf. split_all.
  assert (Hextra : extra = 3) by (apply Nat.eqb_eq; assumption). subst extra.
  assert (Hlen : length nums = 15) by (apply Nat.eqb_eq; assumption).
  destr_nums15 Hlen nums.
  destruct sys as [|c [|c' sys']]; try discriminate.
  assert (Hc : is_alpha c = true) by assumption.
  match goal with H : forallb _ _ = true |- _ => cbn [forallb] in H; fold (field_wf true) in H end.
  split_all.
  unfold parse_record, render_record.
  cbn [r_sys r_prn r_year r_month r_day r_hour r_min r_sec10 r_nums r_extra r_yblank is_v3 lead firstn skipn cont_lines].
  change (tlookup 1 (layout V3)) with (Some (epoch_defs V3 ++ layout_fields clock_names 23 false)%list).
  cbv beta iota. rewrite map_cut_rstrip.
  set (E := epoch_text V3 (mkN (String c "") prn y mo d h mi s10
     [o; o0; o1; o2; o3; o4; o5; o6; o7; o8; o9; o10; o11; o12; o13] 3 yb)).
  assert (F0 : field_wf true o = true) by assumption.
  assert (F1 : field_wf true o0 = true) by assumption.
  pose proof (len_render_field true o F0) as L0.
  pose proof (len_render_field true o0 F1) as L1.
  assert (LE : len E = 23) by reflexivity.
  assert (Hdr : slice 42 61 (E ++ cat (map render_field [o; o0; o1])) = render_field o0).
  { cbn [map cat]. exact (slice_third E _ _ _ 19 L0 L1). }
  assert (Hkv : map (cut (E ++ cat (map render_field [o; o0; o1]))) (epoch_defs V3 ++ layout_fields clock_names 23 false)
          = [("system", strip (String c "")); ("sat_num", strip (two prn)); ("year", strip (four y));
             ("month", strip (two mo)); ("day", strip (two d)); ("hour", strip (two h)); ("minute", strip (two mi));
             ("second", strip (two (s10 / 10)));
             ("sat_clock_bias", strip (slice 23 42 (E ++ cat (map render_field [o; o0; o1]))));
             ("sat_clock_drift", strip (slice 42 61 (E ++ cat (map render_field [o; o0; o1]))));
             ("sat_clock_drift_rate", strip (slice 61 80 (E ++ cat (map render_field [o; o0; o1]))))]).
  { unfold cut. cbn [map epoch_defs is_v3 app fst snd layout_fields clock_names fw Nat.add].
    rewrite !(slice_app_left _ _ E) by (rewrite LE; repeat constructor).
    reflexivity. }
  rewrite Hkv. unfold parse_epoch, parse_epoch3. cbn [is_v3 alookup String.eqb Ascii.eqb Bool.eqb bind].
  rewrite Hdr, (early_exit_last true o0 F1), (strip_char c (alpha_not_space c Hc)).
  cbn [bind].
  assert (Hm : mem (String c "") ["S"; "R"] = true).
  { cbn [mem existsb] in Hsk |- *. apply orb_true_iff in Hsk. destruct Hsk as [Hk|Hk].
    - rewrite Hk. apply orb_true_r.
    - apply orb_true_iff in Hk. destruct Hk as [Hk|Hk]; [rewrite Hk; reflexivity|discriminate]. }
  rewrite Hm. reflexivity.
Qed.

(* ------------------------------------------------------------------------------ grouping and files *)
Local Open Scope list_scope.
Lemma group3_nonempty l ls : group3 (l :: ls) <> [].
Proof. cbn [group3]. destruct (group3 ls); [discriminate|]. destruct (starts_alpha (hd "" ls)); discriminate. Qed.

Definition head_alpha (ls : list string) : Prop := ls = [] \/ starts_alpha (hd "" ls) = true.

Lemma group3_record : forall cs l rest,
  Forall (fun c => starts_alpha c = false) cs -> head_alpha rest ->
  group3 ((l :: cs) ++ rest) = (l :: cs) :: group3 rest.
Proof.
  induction cs as [|c cs IH]; intros l rest Hcs Hr.
  - cbn [app group3]. destruct Hr as [Hr|Hr].
    + subst rest. reflexivity.
    + destruct rest as [|x rest']; [reflexivity|].
      pose proof (group3_nonempty x rest') as Hne.
      destruct (group3 (x :: rest')) as [|g gs] eqn:Eg; [congruence|].
      cbn [hd] in Hr |- *. rewrite Hr. reflexivity.
  - inversion Hcs as [|c' cs' Hc Hcs']; subst.
    change ((l :: c :: cs) ++ rest) with (l :: ((c :: cs) ++ rest)).
    cbn [group3]. rewrite (IH c rest Hcs' Hr). cbn [hd app]. rewrite Hc. reflexivity.
Qed.

Lemma spaces_not_alpha n s : 0 < n -> starts_alpha (spaces n ++ s)%string = false.
Proof. destruct n; [lia|]. intros _. reflexivity. Qed.

Lemma cont_lines_not_alpha ld : 0 < ld -> forall k nums,
  Forall (fun c => starts_alpha c = false) (cont_lines ld k nums).
Proof.
  intros Hld. induction k as [|k IH]; intros nums; cbn [cont_lines]; constructor.
  - apply spaces_not_alpha. exact Hld.
  - apply IH.
Qed.

Lemma render_head_alpha r rest :
  nrec_wf V3 true r = true -> head_alpha (render_record V3 r ++ rest).
Proof.
  intros H. right. unfold nrec_wf in H. split_all.
  unfold render_record, epoch_text. cbn [is_v3 app hd].
  destruct (r_sys r) as [|c s]; [discriminate|]. cbn [starts_alpha append]. assumption.
Qed.

Lemma group3_render rs :
  Forall (fun r => nrec_wf V3 true r = true) rs ->
  group3 (render_body V3 rs) = map (render_record V3) rs.
Proof.
  unfold render_body. induction rs as [|r rs IH]; intros H; [reflexivity|].
  inversion H as [|r' rs' Hr Hrs]; subst. cbn [map concat].
  unfold render_record at 1.
  rewrite group3_record.
  - rewrite (IH Hrs). reflexivity.
  - apply cont_lines_not_alpha. cbn. lia.
  - destruct rs as [|r2 rs2]; [left; reflexivity|].
    inversion Hrs; subst. cbn [map concat]. apply render_head_alpha. assumption.
Qed.

Definition supported_recs (rs : list nrec) : list nrec := filter (fun r => negb (skipped r)) rs.

Theorem file_rt_v3 rs sys2 :
  Forall (fun r => nrec_wf V3 true r = true) rs ->
  parse_body V3 spec_q sys2 (layout V3) (render_body V3 rs) = Some (map (prec_of V3 sys2) (supported_recs rs)).
Proof.
  intros H. unfold parse_body, groups. cbn [is_v3]. rewrite (group3_render rs H). rewrite map_map.
  induction rs as [|r rs IH]; [reflexivity|].
  inversion H as [|r' rs' Hr Hrs]; subst. cbn [map collect supported_recs filter].
  destruct (skipped r) eqn:Hs.
  - rewrite (record_skip_v3 r sys2 Hr Hs). cbn [negb]. apply IH. exact Hrs.
  - rewrite (record_rt_v3 r sys2 Hr Hs). cbn [negb map]. fold (supported_recs rs).
    rewrite (IH Hrs). reflexivity.
Qed.

(* v2: eight lines per record *)
Lemma render_len_v2 v r : nrec_wf v true r = true -> skipped r = false -> length (render_record v r) = 8.
Proof.
  intros H Hs. unfold nrec_wf in H. rewrite Hs in H. split_all.
  assert (E : r_extra r = 7) by (apply Nat.eqb_eq; assumption).
  unfold render_record. rewrite E. reflexivity.
Qed.

Lemma chunk_cons n f (ls : list string) : ls <> [] -> chunk n (S f) ls = firstn n ls :: chunk n f (skipn n ls).
Proof. destruct ls; [congruence|reflexivity]. Qed.

Lemma firstn_skipn_len {A} (a b : list A) n : length a = n -> firstn n (a ++ b) = a /\ skipn n (a ++ b) = b.
Proof.
  intros H. subst n. split.
  - rewrite <- (Nat.add_0_r (length a)). rewrite firstn_app_2. cbn [firstn]. apply List.app_nil_r.
  - rewrite skipn_app, skipn_all, Nat.sub_diag. reflexivity.
Qed.

Lemma chunk_render v : forall rs f,
  Forall (fun r => nrec_wf v true r = true /\ skipped r = false) rs -> length rs <= f ->
  chunk 8 f (concat (map (render_record v) rs)) = map (render_record v) rs.
Proof.
  induction rs as [|r rs IH]; intros f H Hf.
  - destruct f; reflexivity.
  - inversion H as [|r' rs' [Hr Hs] Hrs]; subst. cbn [length] in Hf.
    destruct f as [|f]; [lia|].
    pose proof (render_len_v2 v r Hr Hs) as L8.
    cbn [map concat].
    rewrite chunk_cons.
    + destruct (firstn_skipn_len (render_record v r) (concat (map (render_record v) rs)) 8 L8) as [E1 E2].
      rewrite E1, E2. rewrite (IH f Hrs ltac:(lia)). reflexivity.
    + destruct (render_record v r); [discriminate|discriminate].
Qed.

Theorem file_rt_v2 rs c2 :
  Forall (fun r => nrec_wf V2 true r = true /\ skipped r = false) rs ->
  parse_body V2 spec_q (String c2 "") (layout V2) (render_body V2 rs) = Some (map (prec_of V2 (String c2 "")) rs).
Proof.
  intros H. unfold parse_body, groups, render_body. cbn [is_v3].
  rewrite chunk_render.
  - rewrite map_map. induction rs as [|r rs IH]; [reflexivity|].
    inversion H as [|r' rs' [Hr Hs] Hrs]; subst. cbn [map collect].
    rewrite (record_rt_v2 r c2 Hr Hs). rewrite (IH Hrs). reflexivity.
  - exact H.
  - (* at least one line per record *)
    clear. induction rs as [|r rs IH]; [cbn; lia|].
    cbn [map concat length]. rewrite app_length. unfold render_record at 1. cbn [length]. lia.
Qed.

(* ------------------------------------------------------------------------------ tables, names, offsets *)
Lemma tables_wf :
  table_equiv nav_table_rinex3_nav (layout V3) = true /\
  table_equiv nav_table_rinex2_nav (layout V2) = true /\
  table_equiv nav_table_rinex212_nav (layout V212) = true.
Proof. vm_compute. auto. Qed.

(* the layout the format defines: contiguous 19-character columns behind a lead of 3 (v2) / 4 (v3) blanks *)
Lemma layout_fields_spec names start first i n :
  nth_error names i = Some n ->
  nth_error (layout_fields names start first) i
  = Some (n, (if first && (i =? 0)%nat then 0 else start + i * fw, start + (i + 1) * fw)).
Proof.
  revert start first i. induction names as [|x xs IH]; intros start first i H.
  - destruct i; discriminate.
  - destruct i as [|i].
    + cbn in H. injection H as H. subst. cbn [layout_fields nth_error]. rewrite andb_true_r.
      destruct first; cbn; f_equal; f_equal; f_equal; lia.
    + cbn [nth_error] in H. cbn [layout_fields nth_error]. rewrite (IH _ _ _ H).
      rewrite andb_false_r. cbn [Nat.eqb andb]. f_equal. f_equal. f_equal; lia.
Qed.

(* string case analysis: decide s against every literal it is compared with *)
Ltac case_str s :=
  repeat match goal with
         | |- context [String.eqb ?a s] =>
             lazymatch a with
             | s => fail
             | _ => destruct (String.eqb_spec a s) as [?E|?N]; [subst s; vm_compute; try reflexivity|]
             end
         end.

Lemma sysnames3_spec f s : name_of sysnames_rinex3_nav f s = name_of spec_sysnames f s.
Proof.
  unfold name_of, sysnames_rinex3_nav, spec_sysnames. cbn [alookup].
  repeat match goal with
         | |- context [String.eqb ?a f] =>
             destruct (String.eqb_spec a f) as [?E|?N];
             [subst f; cbn [String.eqb Ascii.eqb Bool.eqb]; cbn [alookup];
              repeat match goal with
                     | |- context [String.eqb ?b s] => destruct (String.eqb_spec b s) as [?E2|?N2]; [subst s; reflexivity|]
                     end; reflexivity|]
         end.
  reflexivity.
Qed.

Lemma sysnames2_spec f s : name_of sysnames_rinex2_nav f s = name_of spec_sysnames f s.
Proof.
  unfold name_of, sysnames_rinex2_nav, spec_sysnames. cbn [alookup].
  repeat match goal with
         | |- context [String.eqb ?a f] =>
             destruct (String.eqb_spec a f) as [?E|?N];
             [subst f; cbn [String.eqb Ascii.eqb Bool.eqb]; cbn [alookup];
              repeat match goal with
                     | |- context [String.eqb ?b s] => destruct (String.eqb_spec b s) as [?E2|?N2]; [subst s; reflexivity|]
                     end; reflexivity|]
         end.
  reflexivity.
Qed.

Lemma sysnames212_spec f s : name_of sysnames_rinex212_nav f s = name_of spec_sysnames f s.
Proof.
  unfold name_of, sysnames_rinex212_nav, spec_sysnames. cbn [alookup].
  repeat match goal with
         | |- context [String.eqb ?a f] =>
             destruct (String.eqb_spec a f) as [?E|?N];
             [subst f; cbn [String.eqb Ascii.eqb Bool.eqb]; cbn [alookup];
              repeat match goal with
                     | |- context [String.eqb ?b s] => destruct (String.eqb_spec b s) as [?E2|?N2]; [subst s; reflexivity|]
                     end; reflexivity|]
         end.
  reflexivity.
Qed.

Ltac off_tac s :=
  cbn [alookup];
  repeat match goal with
         | |- context [String.eqb ?b s] => destruct (String.eqb_spec b s) as [?E2|?N2]; [subst s; reflexivity|]
         end; reflexivity.

Lemma offsets_spec s :
  off_of sec_offset_rinex3_nav s = spec_soff s /\ off_of week_offset_rinex3_nav s = spec_woff s /\
  off_of sec_offset_rinex2_nav s = spec_soff s /\ off_of week_offset_rinex2_nav s = spec_woff s /\
  off_of sec_offset_rinex212_nav s = spec_soff s /\ off_of week_offset_rinex212_nav s = spec_woff s.
Proof.
  unfold off_of, spec_soff, spec_woff,
    sec_offset_rinex3_nav, week_offset_rinex3_nav, sec_offset_rinex2_nav, week_offset_rinex2_nav,
    sec_offset_rinex212_nav, week_offset_rinex212_nav.
  rewrite !(String.eqb_sym s "C").
  repeat split; off_tac s.
Qed.

(* every column produced by the renaming is one general column restricted to the systems that map to its name *)
Lemma rename3_entry sn ps n col :
  In (n, col) (rename3 sn ps) ->
  exists f m, In (f, m) sn /\ In n (map snd m) /\
    col = map (fun p => match alookup (p_sys p) m with
                        | Some n' => if String.eqb n' n then pval f p else None
                        | None => None end) ps.
Proof.
  unfold rename3. intros H. apply in_flat_map in H. destruct H as [[f m] [Hin H]].
  apply in_map_iff in H. destruct H as [n0 [E Hn]]. injection E as E1 E2. subst.
  exists f, m. split; [exact Hin|]. split; [|reflexivity].
  clear - Hn. cbn [snd] in Hn. induction (map snd m) as [|x xs IH]; [destruct Hn|].
  cbn [dedup] in Hn. destruct (mem x xs) eqn:E.
  - right. apply IH. exact Hn.
  - destruct Hn as [Hn|Hn]; [left; exact Hn|right; apply IH; exact Hn].
Qed.

Lemma rename2_entry sn sys2 ps n col :
  In (n, col) (rename2 sn sys2 ps) ->
  exists f m, In (f, m) sn /\ alookup sys2 m = Some n /\ col = map (pval f) ps.
Proof.
  unfold rename2. intros H. apply in_flat_map in H. destruct H as [[f m] [Hin H]].
  cbn [snd fst] in H. destruct (alookup sys2 m) as [n'|] eqn:E; [|destruct H].
  destruct H as [H|[]]. injection H as H1 H2. subst. exists f, m. auto.
Qed.

(* ------------------------------------------------------------------------------ week cross-over *)
Lemma Qlt_b_true a b : Qlt_b a b = true <-> (a < b)%Q.
Proof.
  unfold Qlt_b. rewrite negb_true_iff. split; intros H.
  - apply Qnot_le_lt. intros C. apply Qle_bool_iff in C. congruence.
  - destruct (Qle_bool b a) eqn:E; [|reflexivity]. apply Qle_bool_iff in E. apply Qle_not_lt in E. contradiction.
Qed.
Lemma Qlt_b_false a b : Qlt_b a b = false <-> (b <= a)%Q.
Proof.
  unfold Qlt_b. rewrite negb_false_iff. apply Qle_bool_iff.
Qed.

Lemma resolve_spec toc t :
  ((halfQ < toc - t)%Q -> resolve toc t == t + weekQ) /\
  ((toc - t < - halfQ)%Q -> resolve toc t == t - weekQ) /\
  ((- halfQ <= toc - t)%Q -> (toc - t <= halfQ)%Q -> resolve toc t == t) /\
  ((- (halfQ + weekQ) <= toc - t)%Q -> (toc - t <= halfQ + weekQ)%Q ->
     (- halfQ <= toc - resolve toc t)%Q /\ (toc - resolve toc t <= halfQ)%Q).
Proof.
  unfold resolve, halfQ, weekQ.
  destruct (Qlt_b 302400 (toc - t)) eqn:A; [apply Qlt_b_true in A|apply Qlt_b_false in A];
  (destruct (Qlt_b (toc - t) (- (302400))) eqn:B; [apply Qlt_b_true in B|apply Qlt_b_false in B]);
  repeat split; intros; try reflexivity; try lra.
Qed.

Lemma cross_per_record rows :
  cross spec_q rows = map (fun r : Q * Q * Q => let '(toc, wb, s) := r in resolve toc (wb + s)) rows.
Proof.
  unfold cross. apply map_ext. intros [[toc wb] s]. cbn [q_sow q_elif spec_q andb]. unfold resolve. reflexivity.
Qed.

(* witnesses: a record that needs +, a record that needs -, and a record whose epoch is in the week before *)
Definition wrows_mixed : list (Q * Q * Q) :=
  [ (1140026400, 1140048000 - 604800, 300 + 0)%Q;      (* toc Sat 18:00 of week 1884; tt reported a week early *)
    (1140048000, 1140048000, 597600)%Q ].              (* toc Sun 00:00 of week 1885; tt reported a week late  *)
Definition wrows_week : list (Q * Q * Q) :=
  [ (1140047984, 1140048000, 0)%Q ].                   (* toc Sat 23:59:44, toe = Sun 00:00:00 of the reported week *)

Lemma elif_refuted :
  all2 Qeq_bool (cross (mkQ false false true false false) wrows_mixed) (cross spec_q wrows_mixed) = false /\
  all2 Qeq_bool (cross (mkQ false false true true false) wrows_mixed) (cross spec_q wrows_mixed) = false.
Proof. vm_compute. auto. Qed.

Lemma sow_refuted :
  all2 Qeq_bool (cross (mkQ false false false true false) wrows_week) (cross spec_q wrows_week) = false /\
  all2 Qeq_bool (cross spec_q wrows_week) [1140048000%Q] = true.
Proof. vm_compute. auto. Qed.

(* ------------------------------------------------------------------------------ equal column lengths *)
Lemma cross_length q rows : length (cross q rows) = length rows.
Proof. unfold cross. apply map_length. Qed.

Lemma cols_equal_length v q hdr sys2 ps :
  let c := build_cols v q hdr sys2 ps in
  (forall n col, In (n, col) (c_float c) -> length col = length ps) /\
  (forall n col, In (n, col) (c_time c) -> length col = length ps) /\
  (forall n col, In (n, col) (c_text c) -> length col = length ps).
Proof.
  cbn zeta. unfold build_cols. cbn [c_float c_time c_text]. repeat split; intros n col H.
  - apply in_app_or in H. destruct H as [H|H].
    + apply in_map_iff in H. destruct H as [x [E _]]. injection E as _ E. subst. apply map_length.
    + apply in_app_or in H. destruct H as [H|H].
      * destruct H as [H|[]]. injection H as _ H. subst. apply map_length.
      * destruct (is_v3 v).
        -- apply rename3_entry in H. destruct H as [f [m [_ [_ E]]]]. subst. apply map_length.
        -- apply rename2_entry in H. destruct H as [f [m [_ [_ E]]]]. subst. apply map_length.
  - destruct H as [H|[H|[H|[]]]]; injection H as _ H; subst;
      rewrite ?cross_length; unfold time_rows; rewrite ?map_length; reflexivity.
  - destruct H as [H|[H|[]]]; injection H as _ H; subst; apply map_length.
Qed.

(* the BeiDou shift on the three times and the week *)
Lemma bds_values :
  spec_soff "C" = 14%Z /\ spec_woff "C" = 1356%Z /\
  (forall s, s <> "C"%string -> spec_soff s = 0%Z /\ spec_woff s = 0%Z).
Proof.
  repeat split; try reflexivity; unfold spec_soff, spec_woff;
    destruct (String.eqb_spec s "C"); congruence.
Qed.

(* ------------------------------------------------------------------------------ skipped records leave no trace *)
Lemma supported_idem rs : supported_recs (supported_recs rs) = supported_recs rs.
Proof.
  unfold supported_recs. induction rs as [|r rs IH]; [reflexivity|].
  cbn [filter]. destruct (negb (skipped r)) eqn:E; [|exact IH].
  cbn [filter]. rewrite E, IH. reflexivity.
Qed.

Lemma supported_wf (P : nrec -> Prop) rs : Forall P rs -> Forall P (supported_recs rs).
Proof.
  unfold supported_recs. induction 1 as [|r rs Hr Hrs IH]; [constructor|].
  cbn [filter]. destruct (negb (skipped r)); [constructor; assumption|assumption].
Qed.

Lemma skipped_no_trace rs sys2 :
  Forall (fun r => nrec_wf V3 true r = true) rs ->
  parse_body V3 spec_q sys2 (layout V3) (render_body V3 rs)
  = parse_body V3 spec_q sys2 (layout V3) (render_body V3 (supported_recs rs)).
Proof.
  intros H. rewrite (file_rt_v3 rs sys2 H), (file_rt_v3 _ sys2 (supported_wf _ rs H)), supported_idem. reflexivity.
Qed.

Theorem file_rt_v212 rs c2 :
  Forall (fun r => nrec_wf V212 true r = true /\ skipped r = false) rs ->
  parse_body V212 spec_q (String c2 "") (layout V212) (render_body V212 rs) = Some (map (prec_of V212 (String c2 "")) rs).
Proof. exact (file_rt_v2 rs c2). Qed.

(* non-vacuity: a well-formed record and file *)
Definition ex_num : num := mkNum true "0" "596000000000" "D" true "01".
Definition ex_rec (s : string) : nrec :=
  if mem s ["R"; "S"] then mkN s 7 2016 2 28 0 15 0 (repeat (Some ex_num) 15) 3 false
  else mkN s 11 2016 2 28 22 0 0 (repeat (Some ex_num) 12 ++ [None] ++ repeat (Some ex_num) 16) 7 true.
Lemma ex_wf : forallb (fun s => nrec_wf V3 true (ex_rec s)) ["G"; "R"; "E"; "S"; "C"; "J"; "I"] = true
              /\ nrec_wf V2 true (ex_rec "G") = true.
Proof. vm_compute. auto. Qed.
