(* C05 - accuracy of the one-step (Halley) algorithm on curves, GRS80, |h| <= 100 km (restricted statements).

   NOT proved: the bound on the whole two-dimensional band (latitude x height).  Plain interval bisection of boxes cannot do
   it: the error is a difference of quantities of size 6e6 m that agree to 1e-6 m, an interval enclosure over a box of width
   w loses the cancellation and is ~ 6e6 * w wide, so boxes of 1e-13 rad x 1e-7 m (~1e24 of them) would be needed, and
   Coq-Interval's Taylor models, which do capture the cancellation, are univariate.  What IS proved, with one univariate
   Taylor-model certificate per curve (files C05_Acc_*.v): the round trip llh -> trs -> llh reproduces latitude within
   1.5e-13 rad (< 1e-6 m of arc at these heights) and height within 1e-6 m
     - for all latitudes |phi| <= 1.57 rad (89.95 deg), all longitudes, on the two surfaces h = +100 km and h = -100 km
       (the boundary of the band of the property text), and
     - for all heights -100 km <= h <= 100 km, all longitudes, on the normals at |phi| = 1/4, 3/4, 5/4, 3/2 rad.
   Together with trs2llh_exact_on_axis / _on_equator / halley_exact_on_surface (h = 0) these are curves through the band. *)
From Coq Require Import Reals Lra.
From Verif Require Import Lib.Atan2 Model.C05_Geodetic Proofs.C05_Geodetic Proofs.C05_AccDefs.
From Verif Require Import Proofs.C05_Acc_LatP100 Proofs.C05_Acc_HP100 Proofs.C05_Acc_LatM100 Proofs.C05_Acc_HM100.
From Verif Require Import Proofs.C05_Acc_LatLine14 Proofs.C05_Acc_HLine14 Proofs.C05_Acc_LatLine34 Proofs.C05_Acc_HLine34.
From Verif Require Import Proofs.C05_Acc_LatP100Polar Proofs.C05_Acc_LatM100Polar Proofs.C05_Acc_HP100PolarA Proofs.C05_Acc_HP100PolarB
  Proofs.C05_Acc_HP100PolarC Proofs.C05_Acc_HM100PolarA Proofs.C05_Acc_HM100PolarB Proofs.C05_Acc_HM100PolarC.
From Verif Require Import Proofs.C05_Acc_LatLine54 Proofs.C05_Acc_HLine54 Proofs.C05_Acc_LatLine32 Proofs.C05_Acc_HLine32.
Open Scope R_scope.

Definition eps_lat : R := 3 / 20000000000000.    (* 1.5e-13 rad; times (a + 100 km) = 9.7e-7 m *)
Definition eps_h : R := 1 / 1000000.             (* 1e-6 m *)

(* the round trip at (phi, lam, h): latitude and height come back within eps_lat, eps_h *)
Definition roundtrip_ok (a f phi lam h : R) : Prop :=
  let '(x, y, z) := llh2trs_R a f phi lam h in
  Rabs (lat_of (trs2llh_R a f x y z) - phi) <= eps_lat /\ Rabs (h_of (trs2llh_R a f x y z) - h) <= eps_h.

Lemma geo_even a f phi h : geo_p a f (- phi) h = geo_p a f phi h /\ geo_z a f (- phi) h = - geo_z a f phi h.
Proof. unfold geo_p, geo_z. rewrite cos_neg, sin_neg, <- Rsqr_neg. split; ring. Qed.

(* southern hemisphere from the northern one (trs2llh_mirror) *)
Lemma roundtrip_south a f phi lam h : roundtrip_ok a f phi lam h -> roundtrip_ok a f (- phi) lam h.
Proof.
  unfold roundtrip_ok. rewrite !llh2trs_geo. destruct (geo_even a f phi h) as [Ep Ez]. rewrite Ep, Ez.
  rewrite trs2llh_mirror_l. intros [H1 H2]. unfold lat_of, h_of in *. simpl fst in *. simpl snd in *. split; [|exact H2].
  set (L := fst (fst (trs2llh_R a f (geo_p a f phi h * cos lam) (geo_p a f phi h * sin lam) (geo_z a f phi h)))) in *.
  replace (- L - - phi) with (- (L - phi)) by ring. rewrite Rabs_Ropp. exact H1.
Qed.

Lemma roundtrip_north phi lam h : 0 < phi <= 157 / 100 -> -100000 <= h <= 100000 ->
  Rabs (merid_lat grs80_a grs80_f (geo_p grs80_a grs80_f phi h) (geo_z grs80_a grs80_f phi h) - phi) <= eps_lat ->
  Rabs (merid_h grs80_a grs80_f (geo_p grs80_a grs80_f phi h) (geo_z grs80_a grs80_f phi h) - h) <= eps_h ->
  roundtrip_ok grs80_a grs80_f phi lam h.
Proof.
  intros Hphi Hh Hl Hhh. destruct (band_positive phi h Hphi Hh) as [Hp [Hz Hnp]].
  exact (roundtrip_from_meridian grs80_a grs80_f phi lam h eps_lat eps_h Hp Hz Hnp Hl Hhh).
Qed.

Lemma roundtrip_equator lam h : -100000 <= h <= 100000 -> roundtrip_ok grs80_a grs80_f 0 lam h.
Proof.
  intros Hh. unfold roundtrip_ok. rewrite llh2trs_geo.
  assert (Ez : geo_z grs80_a grs80_f 0 h = 0) by (unfold geo_z; rewrite sin_0; ring).
  rewrite Ez. rewrite trs2llh_equator_lat_l.
  assert (Ep : geo_p grs80_a grs80_f 0 h = grs80_a + h).
  { unfold geo_p. rewrite cos_0, sin_0. replace (1² + (1 - grs80_f)² * 0²) with 1 by (unfold Rsqr; ring).
    rewrite sqrt_1. field. }
  assert (Hp : 0 < grs80_a + h) by (unfold grs80_a; lra).
  set (x := geo_p grs80_a grs80_f 0 h * cos lam). set (y := geo_p grs80_a grs80_f 0 h * sin lam).
  assert (Er : sqrt (x² + y²) = grs80_a + h).
  { unfold x, y. rewrite Ep.
    replace (((grs80_a + h) * cos lam)² + ((grs80_a + h) * sin lam)²) with ((grs80_a + h)² * ((sin lam)² + (cos lam)²))
      by (unfold Rsqr; ring).
    rewrite sin2_cos2, Rmult_1_r. apply sqrt_Rsqr. lra. }
  assert (Hnp : ~ is_pole grs80_a x y).
  { unfold is_pole. intros C.
    assert (E2 : x² + y² = (grs80_a + h)²) by (rewrite <- Er; unfold Rsqr at 3; rewrite sqrt_sqrt; [reflexivity | unfold Rsqr; nra]).
    rewrite E2 in C. assert (H2 : grs80_a² * Q2R q_pole < 1) by (unfold grs80_a, q_pole, Rsqr, Q2R; simpl; lra).
    unfold Rsqr, grs80_a in *. nra. }
  assert (Hne : sqrt (x² + y²) <> grs80_a * ell_e2 grs80_a grs80_f).
  { rewrite Er. destruct (ellipsoid_params_l grs80_a grs80_f) as [_ [He2 _]]; [unfold grs80_a; lra|]. rewrite He2.
    unfold grs80_a, grs80_f in *. intros C. nra. }
  destruct (trs2llh_exact_on_equator_l grs80_a grs80_f x y) as [E _]; try assumption; [unfold grs80_a; lra | unfold grs80_f; lra|].
  rewrite E. unfold h_of; simpl snd. rewrite Er.
  replace (0 - 0) with 0 by ring. replace (grs80_a + h - grs80_a - h) with 0 by ring. rewrite Rabs_R0.
  unfold eps_lat, eps_h. split; lra.
Qed.

(* next to the pole the certificates use the quotient turned over *)
Lemma merid_lat_cot a f p z : 0 < merid_C a f p z -> 0 < merid_S a f p z ->
  merid_lat a f p z = PI / 2 - atan (merid_C a f p z / merid_S a f p z).
Proof.
  intros HC HS. unfold merid_lat.
  replace (merid_S a f p z / merid_C a f p z) with (/ (merid_C a f p z / merid_S a f p z)) by (field; lra).
  apply atan_inv. apply Rdiv_lt_0_compat; assumption.
Qed.

(* ---- the two surfaces of constant height *)
Lemma accuracy_on_height_surfaces_l phi lam h : (h = 100000 \/ h = -100000) -> - (157 / 100) <= phi <= 157 / 100 ->
  roundtrip_ok grs80_a grs80_f phi lam h.
Proof.
  intros Hh Hphi.
  assert (Hb : -100000 <= h <= 100000) by (destruct Hh; subst; lra).
  assert (N : forall q, 0 < q <= 157 / 100 -> roundtrip_ok grs80_a grs80_f q lam h).
  { intros q Hq. apply roundtrip_north; [exact Hq | exact Hb | |].
    - destruct (Rle_dec q (3 / 2)) as [Hlo | Hhi].
      + destruct Hh; subst h; [apply acc_lat_p100 | apply acc_lat_m100]; lra.
      + destruct Hh; subst h.
        * destruct (acc_lat_p100_polar_pos q) as [HC HS]; [lra|]. rewrite (merid_lat_cot _ _ _ _ HC HS).
          apply acc_lat_p100_polar. lra.
        * destruct (acc_lat_m100_polar_pos q) as [HC HS]; [lra|]. rewrite (merid_lat_cot _ _ _ _ HC HS).
          apply acc_lat_m100_polar. lra.
    - destruct (Rle_dec q (3 / 2)) as [H1 | H1];
        [destruct Hh; subst h; [apply acc_h_p100 | apply acc_h_m100]; lra|].
      destruct (Rle_dec q (1535 / 1000)) as [H2 | H2];
        [destruct Hh; subst h; [apply acc_h_p100_polar_a | apply acc_h_m100_polar_a]; lra|].
      destruct (Rle_dec q (156 / 100)) as [H3 | H3];
        [destruct Hh; subst h; [apply acc_h_p100_polar_b | apply acc_h_m100_polar_b]; lra|].
      destruct Hh; subst h; [apply acc_h_p100_polar_c | apply acc_h_m100_polar_c]; lra. }
  destruct (Rtotal_order phi 0) as [Hn | [Hz | Hp]].
  - replace phi with (- (- phi)) by ring. apply roundtrip_south. apply N. lra.
  - subst phi. apply roundtrip_equator. exact Hb.
  - apply N. lra.
Qed.

(* ---- the normals at four latitudes *)
Lemma accuracy_on_normals_l phi lam h :
  (Rabs phi = 1 / 4 \/ Rabs phi = 3 / 4 \/ Rabs phi = 5 / 4 \/ Rabs phi = 3 / 2) -> -100000 <= h <= 100000 ->
  roundtrip_ok grs80_a grs80_f phi lam h.
Proof.
  intros Hphi Hb.
  assert (N : forall q, (q = 1 / 4 \/ q = 3 / 4 \/ q = 5 / 4 \/ q = 3 / 2) -> roundtrip_ok grs80_a grs80_f q lam h).
  { intros q Hq. apply roundtrip_north; [destruct Hq as [E | [E | [E | E]]]; subst q; lra | exact Hb | |].
    - destruct Hq as [E | [E | [E | E]]]; subst q;
        [apply acc_lat_line14 | apply acc_lat_line34 | apply acc_lat_line54 | apply acc_lat_line32]; exact Hb.
    - destruct Hq as [E | [E | [E | E]]]; subst q;
        [apply acc_h_line14 | apply acc_h_line34 | apply acc_h_line54 | apply acc_h_line32]; exact Hb. }
  destruct (Rle_dec 0 phi) as [Hp | Hn].
  - rewrite Rabs_pos_eq in Hphi by exact Hp. apply N. exact Hphi.
  - rewrite Rabs_left in Hphi by lra. replace phi with (- (- phi)) by ring. apply roundtrip_south. apply N. exact Hphi.
Qed.
