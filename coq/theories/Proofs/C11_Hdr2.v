(* Proofs/C11_Hdr2.v - RINEX 2 header: MARKER NAME, # / TYPES OF OBSERV with continuation lines (h_types_v2), TIME OF FIRST OBS *)
From Coq Require Import Ascii String List Bool ZArith QArith Arith Lia.
From Verif Require Import Lib.Text Lib.Decimal Lib.Fixed Lib.Dyadic Model.C11_Rinex Model.C11_Check
     Spec.C11_RinexFormat Spec.C11_RinexFile Proofs.C11_Rinex Proofs.C11_File3 Proofs.C11_Hdr3.
From Verif Require Gen.C11_Rinex2ObsFields.
Import ListNotations.
Local Open Scope nat_scope.
Local Open Scope string_scope.

Module G2 := Gen.C11_Rinex2ObsFields.

Lemma marker_line_ok2 m s : trimmed m = true -> len m <= 60 ->
  header_line G2.header_table (hdr_line m "MARKER NAME") s = Some (set_meta (assoc_set "marker_name" (MStr m) (meta s)) s).
Proof.
  intros T L. unfold header_line.
  assert (K : label_ok "MARKER NAME") by (split; [discriminate|reflexivity]).
  rewrite (label_of_hdr_line m _ L K), (rstrip_hdr_line m _ K).
  change (table_find "MARKER NAME" G2.header_table) with (Some ("_parse_string", false, [mkf "marker_name" 0 60])).
  cbv iota beta. unfold fields_of, parse_record, parse_record_by. cbn [map fname fstart fstop].
  rewrite (slice_hdr_line 0 60 m _ L (le_n _)).
  assert (S60 : slice 0 60 (ljust 60 m) = ljust 60 m).
  { unfold slice. rewrite drop_0. apply take_all. rewrite len_hdr_body; auto. }
  rewrite S60. fold (strip (ljust 60 m)). rewrite (strip_ljust 60 m T). reflexivity.
Qed.

(* ------------------------------------------------------------------------------------------ # / TYPES OF OBSERV *)
Definition sp4 (t : string) : string := "    " ++ t.

Lemma type2_strip_sp4 t : type2_ok t -> strip (sp4 t) = t.
Proof.
  intros [_ T]. unfold sp4. rewrite <- (Text.app_nil_r t) at 1. apply (strip_pad "    " t ""); try reflexivity.
  apply trimmed_token, T.
Qed.

Lemma types_cols2 : forall chunk pre tail j, len pre = 6 + 6 * j -> Forall type2_ok chunk ->
  map (fun k => strip (slice (6 + 6 * k) (12 + 6 * k) (pre ++ cat (map sp4 chunk) ++ tail))) (seq j (List.length chunk)) = chunk.
Proof.
  induction chunk as [|t r IH]; intros pre tail j L F; [reflexivity|].
  inversion F as [|? ? Ft Fr]; subst. cbn [List.length seq map cat]. f_equal.
  - rewrite Text.app_assoc.
    pose proof (slice_app_mid pre (sp4 t) (cat (map sp4 r) ++ tail)) as P.
    assert (L4 : len (sp4 t) = 6) by (unfold sp4; rewrite len_app; destruct Ft as [Lt _]; rewrite Lt; reflexivity).
    rewrite L, L4 in P. replace (6 + 6 * j + 6) with (12 + 6 * j) in P by lia. rewrite P. apply type2_strip_sp4, Ft.
  - replace (pre ++ (sp4 t ++ cat (map sp4 r)) ++ tail) with ((pre ++ sp4 t) ++ cat (map sp4 r) ++ tail)
      by (rewrite !Text.app_assoc; reflexivity).
    apply IH; auto. rewrite len_app, L. unfold sp4. destruct Ft as [Lt _]. rewrite len_app, Lt. simpl. lia.
Qed.

Definition names9 : list string :=
  ["type_1"; "type_2"; "type_3"; "type_4"; "type_5"; "type_6"; "type_7"; "type_8"; "type_9"].

Lemma types_names2 line : names_with_prefix "type_" (parse_record v2_types_fields line) = names9.
Proof. reflexivity. Qed.

Lemma types_lookups2 line :
  map (fun nm => lookup nm (parse_record v2_types_fields line)) names9
  = map (fun k => strip (slice (6 + 6 * k) (12 + 6 * k) line)) (seq 0 9).
Proof. reflexivity. Qed.

Lemma filter_types2 chunk k : Forall type2_ok chunk ->
  filter (fun v => negb (String.eqb v "")) (chunk ++ repeat "" k)%list = chunk.
Proof.
  induction 1 as [|t r [Lt _] Fr IH]; cbn [app filter].
  - induction k; [reflexivity|exact IHk].
  - destruct (String.eqb_spec t ""); [subst; simpl in Lt; lia|]. cbn [negb]. rewrite IH. reflexivity.
Qed.

Lemma len_sp4_cat chunk : Forall type2_ok chunk -> len (cat (map sp4 chunk)) = 6 * List.length chunk.
Proof.
  induction 1 as [|t r [Lt _] Fr IH]; [reflexivity|]. cbn [map cat List.length]. unfold sp4 at 1.
  rewrite !len_app, IH, Lt. simpl. lia.
Qed.

Lemma types_columns2 p6 chunk : len p6 = 6 -> Forall type2_ok chunk -> List.length chunk <= 9 ->
  map (fun k => strip (slice (6 + 6 * k) (12 + 6 * k) (hdr_line (p6 ++ cat (map sp4 chunk)) types_label_v2))) (seq 0 9)
  = (chunk ++ repeat "" (9 - List.length chunk))%list.
Proof.
  intros L6 F L9. set (n := List.length chunk). pose proof (len_sp4_cat chunk F) as Lc. fold n in Lc.
  unfold hdr_line, ljust, ljust_with. rewrite len_app, L6, Lc. fold (spaces (60 - (6 + 6 * n))).
  replace 9 with (n + (9 - n)) at 1 by lia. rewrite seq_app, map_app. f_equal.
  - rewrite !Text.app_assoc. apply (types_cols2 chunk p6 _ 0); [rewrite L6; reflexivity|exact F].
  - cbn [plus]. rewrite <- (map_const_seq "" n (9 - n)).
    apply map_ext_in. intros k Hk. apply in_seq in Hk.
    rewrite (Text.app_assoc (p6 ++ cat (map sp4 chunk))). apply blank_col; rewrite ?len_app, ?L6, ?Lc; lia.
Qed.

Definition with_v2 (s : st) (all : list string) (nt : option Z) : st :=
  {| meta := meta s; pos := pos s; types_all := all; num_types := nt; sys_types := sys_types s; hsys := hsys s; rows := rows s |}.

Lemma table_types2 : table_find types_label_v2 G2.header_table = Some ("_parse_types_of_observ", false, v2_types_fields).
Proof. reflexivity. Qed.
Lemma header_record_types2 vals s : header_record "_parse_types_of_observ" vals s = h_types_v2 vals s.
Proof. reflexivity. Qed.
Lemma types_label_ok2 : label_ok types_label_v2.
Proof. split; [discriminate|reflexivity]. Qed.

Lemma render_nat_nonempty z : render_nat z <> "".
Proof.
  unfold render_nat. pose proof (len_digits_fixed (ndigits z) z) as L. pose proof (ndigits_pos z). intro E. rewrite E in L. simpl in L. lia.
Qed.

Lemma types_line_ok2 (first : option Z) chunk s :
  match first with Some n => (0 <= n)%Z /\ fits_int 6 n | None => num_types s <> None end ->
  chunk <> [] -> Forall type2_ok chunk -> List.length chunk <= 9 ->
  header_line G2.header_table (hdr_line (types_body_v2 first chunk) types_label_v2) s =
  Some (match first with
        | Some n => with_v2 s chunk (Some n)
        | None => with_v2 s (types_all s ++ chunk)%list (num_types s)
        end).
Proof.
  intros Fo Ne F L9. unfold types_body_v2.
  set (p6 := match first with Some n => render_int 6 n | None => spaces 6 end).
  assert (L6 : len p6 = 6) by (unfold p6; destruct first as [n|]; [apply len_render_int, Fo|reflexivity]).
  change (fun t => "    " ++ t) with sp4.
  assert (Lb : len (p6 ++ cat (map sp4 chunk)) <= 60) by (rewrite len_app, L6, (len_sp4_cat chunk F); lia).
  unfold header_line. rewrite (label_of_hdr_line _ _ Lb types_label_ok2), (rstrip_hdr_line _ _ types_label_ok2), table_types2.
  rewrite header_record_types2. unfold fields_of.
  set (line := hdr_line (p6 ++ cat (map sp4 chunk)) types_label_v2).
  assert (Ty : add_types (names_with_prefix "type_" (parse_record v2_types_fields line)) (parse_record v2_types_fields line) [] = chunk).
  { rewrite types_names2, add_types_filter, types_lookups2. cbn [app]. unfold line.
    rewrite (types_columns2 p6 chunk L6 F L9). apply filter_types2, F. }
  assert (Nn : lookup "num_obstypes" (parse_record v2_types_fields line) = strip p6).
  { transitivity (strip (slice 0 6 line)); [reflexivity|]. unfold line. rewrite (slice_hdr_line 0 6 _ _ Lb) by lia.
    f_equal. unfold ljust, ljust_with. rewrite Text.app_assoc. rewrite <- L6. apply slice_0_len. }
  unfold h_types_v2. rewrite Ty, Nn. unfold p6.
  destruct chunk as [|t0 r0]; [contradiction|].
  destruct first as [n|].
  - destruct Fo as [Hn Fn]. rewrite strip_render_int_nonneg by exact Hn.
    destruct (String.eqb_spec (render_nat n) ""); [exfalso; eapply render_nat_nonempty; eauto|].
    rewrite <- (strip_render_int_nonneg 6 n Hn), parse_int_strip, parse_render_int. reflexivity.
  - change (strip (spaces 6)) with "". cbn [String.eqb]. destruct (num_types s); [reflexivity|contradiction].
Qed.

Definition cont_line2 (c : list string) : string := hdr_line (types_body_v2 None c) types_label_v2.

Lemma with_v2_id s : with_v2 s (types_all s) (num_types s) = s.
Proof. destruct s; reflexivity. Qed.

Lemma cont_lines_ok2 : forall cr s, num_types s <> None ->
  Forall (fun c => c <> [] /\ List.length c <= 9 /\ Forall type2_ok c) cr ->
  hfold G2.header_table (map cont_line2 cr) s = Some (with_v2 s (types_all s ++ concat cr)%list (num_types s)).
Proof.
  induction cr as [|c r IH]; intros s Hn F.
  - cbn [map hfold concat]. rewrite List.app_nil_r, with_v2_id. reflexivity.
  - apply Forall_cons_iff in F. destruct F as [[Ne [L9 Fc]] Fr]. cbn [map hfold concat]. unfold cont_line2 at 1.
    rewrite (types_line_ok2 None c s Hn Ne Fc L9). cbv beta iota. rewrite IH; [| exact Hn | exact Fr].
    unfold with_v2. cbn [meta pos types_all num_types sys_types hsys rows]. rewrite List.app_assoc. reflexivity.
Qed.

Lemma types_lines_ok2 types s : types <> [] -> Forall type2_ok types -> fits_int 6 (Z.of_nat (List.length types)) ->
  hfold G2.header_table (types_lines_v2 types) s = Some (with_v2 s types (Some (Z.of_nat (List.length types)))).
Proof.
  intros Ne Ft Fn.
  destruct (chunks_props type2_ok 9 ltac:(lia) (List.length types) types (le_n _) Ft) as [C1 C2].
  unfold types_lines_v2. destruct (chunks (List.length types) 9 types) as [|c0 cr] eqn:E.
  - cbn [concat] in C1. subst types. contradiction.
  - apply Forall_cons_iff in C2. destruct C2 as [[Ne0 [L0 F0]] Fr]. cbn [hfold].
    rewrite (types_line_ok2 (Some (Z.of_nat (List.length types))) c0 s (conj (Nat2Z.is_nonneg _) Fn) Ne0 F0 L0).
    cbv beta iota. fold (map cont_line2 cr). rewrite cont_lines_ok2; [| discriminate | exact Fr].
    unfold with_v2. cbn [meta pos types_all num_types sys_types hsys rows]. cbn [concat] in C1. rewrite C1. reflexivity.
Qed.

Lemma types_lines_not_end2 types : types <> [] -> Forall type2_ok types -> fits_int 6 (Z.of_nat (List.length types)) ->
  Forall (fun l => is_end_of_header l = false) (types_lines_v2 types).
Proof.
  intros Ne Ft Fn.
  destruct (chunks_props type2_ok 9 ltac:(lia) (List.length types) types (le_n _) Ft) as [_ C2].
  unfold types_lines_v2. destruct (chunks (List.length types) 9 types) as [|c0 cr]; [constructor|].
  assert (B : forall first c, (match first with Some n => fits_int 6 n | None => True end) -> Forall type2_ok c -> List.length c <= 9 ->
              is_end_of_header (hdr_line (types_body_v2 first c) types_label_v2) = false).
  { intros first c Ff Fc Lc. rewrite (end_marker_hdr_line _ _); [reflexivity| |apply types_label_ok2].
    unfold types_body_v2. change (fun t => "    " ++ t) with sp4. rewrite len_app, (len_sp4_cat c Fc).
    destruct first; [rewrite (len_render_int 6 _ Ff)|change (len (spaces 6)) with 6]; lia. }
  apply Forall_cons_iff in C2. destruct C2 as [[_ [L0 F0]] Fr]. constructor.
  - apply B; auto.
  - apply Forall_forall. intros l Hl. apply in_map_iff in Hl. destruct Hl as [c [E Hc]]. subst l.
    destruct (proj1 (Forall_forall _ _) Fr c Hc) as [_ [Lc Fc]]. apply (B None); auto.
Qed.

(* ------------------------------------------------------------------------------------------ TIME OF FIRST OBS *)
Lemma fits_int_mono w w' z : w <= w' -> fits_int w z -> fits_int w' z.
Proof. unfold fits_int. lia. Qed.


Lemma first_obs_widths t : first_ok t -> widths_ok (first_obs_pieces t) [6; 6; 6; 6; 6; 13; 5; 3].
Proof.
  intros [[Hy [_ [Hmo [Hd [Hh [Hmi [Hs _]]]]]]] [Fy Fs]]. unfold first_obs_pieces. cbn [widths_ok].
  rewrite (len_render_int 6 _ Fy), !(len_render_int 6) by (apply (fits_int_mono 2); [lia|apply fits_int_2; assumption]).
  rewrite (render_F_length 13 7 _ Fs). repeat split; reflexivity.
Qed.

Lemma table_first2 : table_find "TIME OF FIRST OBS" G2.header_table = Some ("_parse_time_of_first_obs", false, first_obs_fields).
Proof. reflexivity. Qed.

Lemma first_obs_ok_gen tbl t s :
  table_find "TIME OF FIRST OBS" tbl = Some ("_parse_time_of_first_obs", false, first_obs_fields) -> first_ok t ->
  header_line tbl (first_obs_line t) s =
  Some (set_meta (assoc_set "time_first_obs" (MStr (time_text (ep_y t) (ep_mo t) (ep_d t) (ep_h t) (ep_mi t) (dec_value (ep_s7 t) 7)))
                            (assoc_set "time_sys" (MStr "GPS") (meta s))) s).
Proof.
  intros Tb Ok. pose proof (first_obs_widths t Ok) as W. pose proof (len_cat_widths _ _ W) as Lx.
  destruct Ok as [[Hy _] _].
  assert (K : label_ok "TIME OF FIRST OBS") by (split; [discriminate|reflexivity]).
  set (x := cat (first_obs_pieces t)) in *. assert (Lb : len x <= 60) by (rewrite Lx; simpl; lia).
  unfold header_line, first_obs_line. fold x. rewrite (label_of_hdr_line _ _ Lb K), (rstrip_hdr_line _ _ K), Tb.
  change (header_record "_parse_time_of_first_obs") with (h_time "time_first_obs" true). unfold fields_of.
  set (vals := parse_record first_obs_fields (hdr_line x "TIME OF FIRST OBS")).
  assert (P : forall i a b, i < 8 -> a = list_sum (firstn i [6; 6; 6; 6; 6; 13; 5; 3]) -> b = list_sum (firstn (S i) [6; 6; 6; 6; 6; 13; 5; 3]) ->
              slice a b (hdr_line x "TIME OF FIRST OBS") = nth i (first_obs_pieces t) "").
  { intros i a b Hi -> ->. rewrite (slice_hdr_line _ _ x _ Lb).
    - unfold ljust, ljust_with. rewrite slice_app_left.
      + apply (slice_piece _ _ i W). simpl. lia.
      + fold x. rewrite Lx. destruct i as [|[|[|[|[|[|[|[|]]]]]]]]; simpl; lia.
    - destruct i as [|[|[|[|[|[|[|[|]]]]]]]]; simpl; lia. }
  assert (Ly : lookup "year" vals = strip (render_int 6 (ep_y t))).
  { transitivity (strip (slice 0 6 (hdr_line x "TIME OF FIRST OBS"))); [reflexivity|]. rewrite (P 0 0 6) by (reflexivity || lia). reflexivity. }
  assert (Lmo : lookup "month" vals = strip (render_int 6 (ep_mo t))).
  { transitivity (strip (slice 6 12 (hdr_line x "TIME OF FIRST OBS"))); [reflexivity|]. rewrite (P 1 6 12) by (reflexivity || lia). reflexivity. }
  assert (Ld : lookup "day" vals = strip (render_int 6 (ep_d t))).
  { transitivity (strip (slice 12 18 (hdr_line x "TIME OF FIRST OBS"))); [reflexivity|]. rewrite (P 2 12 18) by (reflexivity || lia). reflexivity. }
  assert (Lh : lookup "hour" vals = strip (render_int 6 (ep_h t))).
  { transitivity (strip (slice 18 24 (hdr_line x "TIME OF FIRST OBS"))); [reflexivity|]. rewrite (P 3 18 24) by (reflexivity || lia). reflexivity. }
  assert (Lmi : lookup "minute" vals = strip (render_int 6 (ep_mi t))).
  { transitivity (strip (slice 24 30 (hdr_line x "TIME OF FIRST OBS"))); [reflexivity|]. rewrite (P 4 24 30) by (reflexivity || lia). reflexivity. }
  assert (Ls : lookup "second" vals = strip (render_F 13 7 (ep_s7 t))).
  { transitivity (strip (slice 30 43 (hdr_line x "TIME OF FIRST OBS"))); [reflexivity|]. rewrite (P 5 30 43) by (reflexivity || lia). reflexivity. }
  assert (Lt : lookup "time_sys" vals = "GPS").
  { transitivity (strip (slice 48 51 (hdr_line x "TIME OF FIRST OBS"))); [reflexivity|]. rewrite (P 7 48 51) by (reflexivity || lia). reflexivity. }
  unfold h_time, time_of. rewrite Lt, Ly, Lmo, Ld, Lh, Lmi, Ls. cbn [String.eqb Ascii.eqb Bool.eqb negb].
  replace (String.eqb "GPS" "GPS") with true by reflexivity. cbn [negb].
  rewrite strip_render_int_nonneg by exact Hy.
  destruct (String.eqb_spec (render_nat (ep_y t)) ""); [exfalso; eapply render_nat_nonempty; eauto|].
  rewrite <- (strip_render_int_nonneg 6 _ Hy). rewrite !parse_int_strip, !parse_render_int.
  unfold parse_float. rewrite parse_float_strip. fold parse_float. rewrite parse_render_F. reflexivity.
Qed.

Lemma first_obs_ok t s : first_ok t ->
  header_line G2.header_table (first_obs_line t) s =
  Some (set_meta (assoc_set "time_first_obs" (MStr (time_text (ep_y t) (ep_mo t) (ep_d t) (ep_h t) (ep_mi t) (dec_value (ep_s7 t) 7)))
                            (assoc_set "time_sys" (MStr "GPS") (meta s))) s).
Proof. apply first_obs_ok_gen, table_first2. Qed.
