(* C10 (d) - the round trip  read2 (write2 g lvl) = expected lvl g  of Model/C10_Graph.v (object graph with shared
   private objects, references of references, references to fields below the write level) in the specification
   setting qb = false. *)
From Coq Require Import ZArith List Bool String Ascii Lia Permutation.
From Verif Require Import Lib.Dyadic Model.C10_Attr Model.C10_File Model.C10_Graph Proofs.C10_Attr Proofs.C10_FileRT.
Import ListNotations.

(* ------------------------------------------------------------------ well-formed object graphs *)
Fixpoint nodup_keys (l : list key) : bool :=
  match l with [] => true | k :: r => negb (existsb (key_eqb k) r) && nodup_keys r end.

Definition attr_free (a : string) (nd : node) : bool := negb (existsb (String.eqb a) (map fst (n_refs nd))).

Definition field_ok (g : gdataset) (pe : path * gentry) : bool :=
  match pe with (p, e) =>
    negb (match p with [] => true | _ => false end) && forallb comp_ok p &&
    (match p with
     | _ :: _ :: _ => match plookup (parent p) (g_fields g) with Some GColl => true | _ => false end
     | _ => true end) &&
    match e with
    | GLeaf l => (1 <=? gl_level l)%Z && (gl_level l <=? 3)%Z &&
                 match gl_unit l with Some [] => false | _ => true end &&
                 match klookup (KF p) (g_objs g) with Some _ => true | None => false end
    | GColl => true
    end
  end.

Definition node_ok (g : gdataset) (kn : key * node) : bool :=
  match kn with (k, nd) =>
    nodup_str (map fst (n_refs nd)) && forallb comp_ok (map fst (n_refs nd)) &&
    match k with
    | KF p => match plookup p (g_fields g) with Some (GLeaf _) => true | _ => false end &&
              payload_ok (dotted p) (n_pl nd) && attr_free (dotted p) nd
    | KP _ => true
    end &&
    forallb (fun ak => match klookup (snd ak) (g_objs g) with
                       | Some nd' => payload_ok (fst ak) (n_pl nd') && attr_free (fst ak) nd'
                       | None => false
                       end) (n_refs nd)
  end.

Definition gwf (g : gdataset) : bool :=
  nodup_paths (map fst (g_fields g)) && forallb (field_ok g) (g_fields g) &&
  nodup_keys (map fst (g_objs g)) && forallb (node_ok g) (g_objs g) &&
  forallb (fun kt => encodable (snd kt)) (g_meta g).

Definition granked (rank : key -> nat) (g : gdataset) : Prop :=
  forall k nd a k', In (k, nd) (g_objs g) -> In (a, k') (n_refs nd) -> (rank k' < rank k)%nat.

(* ------------------------------------------------------------------ generalities *)
Lemma key_eqb_eq : forall a b, key_eqb a b = true <-> a = b.
Proof.
  intros [p|n] [q|m]; cbn; split; intro H; try discriminate; try congruence.
  - apply path_eqb_eq in H. congruence.
  - inversion H. apply path_eqb_refl.
  - apply Nat.eqb_eq in H. congruence.
  - inversion H. apply Nat.eqb_refl.
Qed.

Lemma key_eqb_refl : forall a, key_eqb a a = true.
Proof. intro a. apply key_eqb_eq. reflexivity. Qed.

Lemma key_eqb_neq : forall a b, key_eqb a b = false <-> a <> b.
Proof.
  intros a b. split.
  - intros H E. subst. rewrite key_eqb_refl in H. discriminate.
  - intro H. destruct (key_eqb a b) eqn:E; [|reflexivity]. apply key_eqb_eq in E. contradiction.
Qed.

Lemma klookup_in : forall {A} k (l : list (key * A)) v, klookup k l = Some v -> In (k, v) l.
Proof.
  intros A k l v. induction l as [|[k' x] l IH]; cbn; [discriminate|].
  destruct (key_eqb k k') eqn:E.
  - intro H. inversion H; subst. apply key_eqb_eq in E. subst. left. reflexivity.
  - intro H. right. apply IH. exact H.
Qed.

Lemma in_klookup : forall {A} k (l : list (key * A)) v, nodup_keys (map fst l) = true -> In (k, v) l -> klookup k l = Some v.
Proof.
  intros A k l v. induction l as [|[k' x] l IH]; cbn; [intros _ []|].
  intros H Hin. apply andb_true_iff in H. destruct H as [Hn Hd]. destruct Hin as [Hin|Hin].
  - inversion Hin; subst. rewrite key_eqb_refl. reflexivity.
  - destruct (key_eqb k k') eqn:E; [|apply IH; assumption].
    exfalso. apply key_eqb_eq in E. subst k'. apply negb_true_iff in Hn.
    assert (X : existsb (key_eqb k) (map fst l) = true).
    { apply existsb_exists. exists k. split; [|apply key_eqb_refl]. apply in_map_iff. exists (k, v). auto. }
    rewrite X in Hn. discriminate.
Qed.

Lemma in_plookup : forall {A} p (l : list (path * A)) v, nodup_paths (map fst l) = true -> In (p, v) l -> plookup p l = Some v.
Proof.
  intros A p l v. induction l as [|[k' x] l IH]; cbn; [intros _ []|].
  intros H Hin. apply andb_true_iff in H. destruct H as [Hn Hd]. destruct Hin as [Hin|Hin].
  - inversion Hin; subst. rewrite path_eqb_refl. reflexivity.
  - destruct (path_eqb p k') eqn:E; [|apply IH; assumption].
    exfalso. apply path_eqb_eq in E. subst k'. apply negb_true_iff in Hn.
    assert (X : existsb (path_eqb p) (map fst l) = true).
    { apply existsb_exists. exists p. split; [|apply path_eqb_refl]. apply in_map_iff. exists (p, v). auto. }
    rewrite X in Hn. discriminate.
Qed.

Lemma path_eqb_neq : forall a b, path_eqb a b = false <-> a <> b.
Proof.
  intros a b. split.
  - intros H E. subst. rewrite path_eqb_refl in H. discriminate.
  - intro H. destruct (path_eqb a b) eqn:E; [|reflexivity]. apply path_eqb_eq in E. contradiction.
Qed.

Lemma is_prefix_app : forall p q, is_prefix p q = true <-> exists r, q = p ++ r.
Proof.
  induction p as [|x p IH]; intros q; cbn.
  - split; [intros _; exists q; reflexivity|reflexivity].
  - destruct q as [|y q].
    + split; [discriminate|intros [r H]; discriminate].
    + rewrite andb_true_iff, String.eqb_eq, IH. split.
      * intros [-> [r ->]]. exists r. reflexivity.
      * intros [r H]. inversion H; subst. split; [reflexivity|exists r; reflexivity].
Qed.

Lemma app_prefix_cmp : forall (p p' r r' : path), p ++ r = p' ++ r' -> (exists s, p' = p ++ s) \/ (exists s, p = p' ++ s).
Proof.
  induction p as [|x p IH]; intros p' r r' H.
  - left. exists p'. reflexivity.
  - destruct p' as [|y p'].
    + right. exists (x :: p). reflexivity.
    + inversion H; subst. destruct (IH _ _ _ H2) as [[s ->]|[s ->]].
      * left. exists s. reflexivity.
      * right. exists s. reflexivity.
Qed.

Lemma lookup_in : forall {A} k (l : list (string * A)) v, lookup k l = Some v -> In (k, v) l.
Proof.
  intros A k l v. induction l as [|[k' x] l IH]; cbn; [discriminate|].
  destruct (String.eqb k k') eqn:E.
  - intro H. inversion H; subst. apply String.eqb_eq in E. subst. left. reflexivity.
  - intro H. right. apply IH. exact H.
Qed.

Lemma Forall2_map_eq : forall {X Y Z} (R : X -> Y -> Prop) (h : X -> Z) (g : Y -> Z) xs ys,
  Forall2 R xs ys -> (forall x y, In x xs -> In y ys -> R x y -> h x = g y) -> map h xs = map g ys.
Proof.
  intros X Y Z R h g xs ys F. induction F as [|x y xs ys Hxy F IHF]; intro HH; cbn; [reflexivity|]. f_equal.
  - apply HH; [left; reflexivity|left; reflexivity|assumption].
  - apply IHF. intros; apply HH; [right; assumption|right; assumption|assumption].
Qed.

Lemma Forall2_impl_In : forall {A B} (R R' : A -> B -> Prop) l l',
  (forall a b, In a l -> In b l' -> R a b -> R' a b) -> Forall2 R l l' -> Forall2 R' l l'.
Proof.
  intros A B R R' l l' H F. induction F; constructor.
  - apply H; [left; reflexivity|left; reflexivity|assumption].
  - apply IHF. intros a b Ha Hb. apply H; right; assumption.
Qed.

Lemma filter_length_or : forall {X} (f g : X -> bool) l,
  (List.length (filter (fun x => f x || g x) l) <= List.length (filter f l) + List.length (filter g l))%nat.
Proof.
  intros X f g l. induction l as [|a l IH]; cbn; [lia|]. destruct (f a), (g a); cbn; lia.
Qed.

Lemma filter_key_le1 : forall {A} k (l : list (key * A)), nodup_keys (map fst l) = true ->
  (List.length (filter (fun kn => key_eqb (fst kn) k) l) <= 1)%nat.
Proof.
  intros A k l. induction l as [|[k' x] l IH]; cbn; [lia|].
  intro H. apply andb_true_iff in H. destruct H as [Hn Hd]. specialize (IH Hd).
  destruct (key_eqb k' k) eqn:E; [|exact IH]. cbn. apply key_eqb_eq in E. subst k'.
  assert (X : filter (fun kn : key * A => key_eqb (fst kn) k) l = []).
  { clear IH Hd. induction l as [|[k2 x2] l IH2]; cbn; [reflexivity|]. cbn in Hn. apply negb_true_iff in Hn.
    apply orb_false_iff in Hn. destruct Hn as [H1 H2]. rewrite key_eqb_neq in H1.
    destruct (key_eqb k2 k) eqn:E2; [apply key_eqb_eq in E2; congruence|]. apply IH2. apply negb_true_iff. exact H2. }
  rewrite X. cbn. lia.
Qed.

(* ------------------------------------------------------------------ what gwf gives *)
Section WF.
  Variable g : gdataset.
  Hypothesis W : gwf g = true.

  Lemma gwf_nodup : nodup_paths (map fst (g_fields g)) = true.
  Proof. unfold gwf in W. rewrite !andb_true_iff in W. tauto. Qed.

  Lemma gwf_nodup_keys : nodup_keys (map fst (g_objs g)) = true.
  Proof. unfold gwf in W. rewrite !andb_true_iff in W. tauto. Qed.

  Lemma gwf_meta : forallb (fun kt => encodable (snd kt)) (g_meta g) = true.
  Proof. unfold gwf in W. rewrite !andb_true_iff in W. tauto. Qed.

  Lemma gwf_field : forall p e, In (p, e) (g_fields g) -> field_ok g (p, e) = true.
  Proof.
    intros p e Hin. unfold gwf in W. rewrite !andb_true_iff in W. destruct W as [[[[_ H] _] _] _].
    rewrite forallb_forall in H. exact (H _ Hin).
  Qed.

  Lemma gwf_node : forall k nd, In (k, nd) (g_objs g) -> node_ok g (k, nd) = true.
  Proof.
    intros k nd Hin. unfold gwf in W. rewrite !andb_true_iff in W. destruct W as [[_ H] _].
    rewrite forallb_forall in H. exact (H _ Hin).
  Qed.

  Lemma gwf_nonnil : forall p e, In (p, e) (g_fields g) -> p <> [].
  Proof.
    intros p e Hin. pose proof (gwf_field _ _ Hin) as H. unfold field_ok in H. rewrite !andb_true_iff in H.
    destruct H as [[[H _] _] _]. intro X. subst p. discriminate.
  Qed.

  Lemma gwf_parent : forall p e, In (p, e) (g_fields g) -> (2 <= List.length p)%nat -> In (parent p, GColl) (g_fields g).
  Proof.
    intros p e Hin L. pose proof (gwf_field _ _ Hin) as H. unfold field_ok in H. rewrite !andb_true_iff in H.
    destruct H as [[_ H] _]. destruct p as [|x [|y p]]; cbn in L; try lia.
    destruct (plookup (parent (x :: y :: p)) (g_fields g)) as [[l|]|] eqn:E; try discriminate.
    apply plookup_in. exact E.
  Qed.

  Lemma gwf_leaf : forall p l, In (p, GLeaf l) (g_fields g) ->
    (1 <= gl_level l <= 3)%Z /\ exists nd, klookup (KF p) (g_objs g) = Some nd.
  Proof.
    intros p l Hin. pose proof (gwf_field _ _ Hin) as H. unfold field_ok in H. rewrite !andb_true_iff in H.
    destruct H as [_ [[[L1 L2] _] K]]. apply Z.leb_le in L1. apply Z.leb_le in L2. split; [lia|].
    destruct (klookup (KF p) (g_objs g)) as [nd|]; [exists nd; reflexivity|discriminate].
  Qed.

  Lemma gwf_refs_nodup : forall k nd, In (k, nd) (g_objs g) -> nodup_str (map fst (n_refs nd)) = true.
  Proof.
    intros k nd Hin. pose proof (gwf_node _ _ Hin) as H. unfold node_ok in H. rewrite !andb_true_iff in H. tauto.
  Qed.

  Lemma gwf_fnode : forall p nd, In (KF p, nd) (g_objs g) ->
    (exists l, In (p, GLeaf l) (g_fields g)) /\ payload_ok (dotted p) (n_pl nd) = true /\ attr_free (dotted p) nd = true.
  Proof.
    intros p nd Hin. pose proof (gwf_node _ _ Hin) as H. unfold node_ok in H. rewrite !andb_true_iff in H.
    destruct H as [[_ [[H1 H2] H3]] _]. split; [|split; assumption].
    destruct (plookup p (g_fields g)) as [[l|]|] eqn:E; try discriminate. exists l. apply plookup_in. exact E.
  Qed.

  Lemma gwf_edge : forall k nd a k', In (k, nd) (g_objs g) -> In (a, k') (n_refs nd) ->
    exists nd', klookup k' (g_objs g) = Some nd' /\ payload_ok a (n_pl nd') = true /\ attr_free a nd' = true.
  Proof.
    intros k nd a k' Hin Ha. pose proof (gwf_node _ _ Hin) as H. unfold node_ok in H. rewrite !andb_true_iff in H.
    destruct H as [_ H]. rewrite forallb_forall in H. specialize (H _ Ha). cbn [fst snd] in H.
    destruct (klookup k' (g_objs g)) as [nd'|]; [|discriminate]. apply andb_true_iff in H. exists nd'. tauto.
  Qed.

  (* a leaf is never a proper prefix of another entry's path (tree shape + distinct paths) *)
  Lemma leaf_prefix : forall p l r e, In (p, GLeaf l) (g_fields g) -> In (p ++ r, e) (g_fields g) -> r = [].
  Proof.
    intros p l r. induction r as [|x r IH] using rev_ind; intros e Hp Hq; [reflexivity|]. exfalso.
    assert (Np : p <> []) by (eapply gwf_nonnil; eassumption).
    assert (L : (2 <= List.length (p ++ r ++ [x]))%nat).
    { rewrite !app_length. cbn. destruct p; [congruence|]. cbn. lia. }
    pose proof (gwf_parent _ _ Hq L) as Hpar. unfold parent in Hpar. rewrite app_assoc in Hpar. rewrite removelast_last in Hpar.
    specialize (IH _ Hp Hpar). subst r. rewrite app_nil_r in Hpar.
    pose proof (nodup_paths_fun _ _ _ _ gwf_nodup Hp Hpar). discriminate.
  Qed.
End WF.

(* ------------------------------------------------------------------ list relations as fixpoints (for nested recursion) *)
Section All2.
  Context {A B : Type}.
  Variable R : A -> B -> Prop.
  Fixpoint all2 (l : list A) (l' : list B) {struct l'} : Prop :=
    match l' with
    | [] => match l with [] => True | _ => False end
    | y :: r' => match l with [] => False | x :: r => R x y /\ all2 r r' end
    end.
End All2.

Lemma all2_Forall2 : forall {A B} (R : A -> B -> Prop) l l', all2 R l l' <-> Forall2 R l l'.
Proof.
  intros A B R l l'. revert l. induction l' as [|y l' IH]; intros [|x l]; cbn; split; intro H.
  - constructor.
  - exact Logic.I.
  - destruct H.
  - inversion H.
  - destruct H.
  - inversion H.
  - destruct H as [H1 H2]. constructor; [exact H1|apply IH; exact H2].
  - inversion H; subst. split; [assumption|]. apply IH. assumption.
Qed.

Fixpoint isz (l : list (string * h5item)) : nat :=
  match l with
  | [] => O
  | (_, ISub o') :: r => (size_o o' + isz r)%nat
  | _ :: r => isz r
  end.

Lemma size_o_eq : forall c f s d items, size_o (H5o c f s d items) = S (isz items).
Proof. intros. reflexivity. Qed.

Lemma payload_of_roundtrip : forall nm pl, payload_ok nm pl = true ->
  payload_of (p_class pl) nm (p_sattrs pl) (obj_data nm pl) = pl.
Proof. intros nm pl H. exact (payload_roundtrip nm pl H). Qed.

Lemma descend_app : forall r o o' r', descend o r = Some o' -> descend o (r ++ r') = descend o' r'.
Proof.
  induction r as [|a r IH]; intros o o' r' H; cbn in *.
  - inversion H. reflexivity.
  - destruct o as [c f s d items]. destruct (lookup a items) as [[p|o1]|]; try discriminate. apply IH. exact H.
Qed.

(* ------------------------------------------------------------------ write_node, unfolded once *)
Section WGo.
  Variable wn : wmemo2 -> path -> string -> path -> key -> node -> option (wmemo2 * h5o).
  Variable objs : list (key * node).
  Variable gp : path.
  Variable fname : string.
  Fixpoint wgo (m : wmemo2) (rs : list (string * key)) {struct rs} : option (wmemo2 * list (string * h5item)) :=
    match rs with
    | [] => Some (m, [])
    | (a, k) :: rest =>
        match klookup k m with
        | Some nm =>
            match wgo m rest with
            | Some (m', it) => Some (m', (a, IName nm) :: it)
            | None => None
            end
        | None =>
            if String.eqb a fname then None else
            match klookup k objs with
            | None => None
            | Some nd' =>
                match wn ((k, gp ++ [a]) :: m) (gp ++ [a]) a [a] k nd' with
                | None => None
                | Some (m2, o) =>
                    match wgo m2 rest with
                    | Some (m3, it) => Some (m3, (a, ISub o) :: it)
                    | None => None
                    end
                end
            end
        end
    end.
End WGo.

Lemma write_node_S : forall n objs m gp fname fnp self nd,
  write_node (S n) false objs m gp fname fnp self nd =
  match wgo (write_node n false objs) objs gp fname m (n_refs nd) with
  | None => None
  | Some (m', it) =>
      Some (if n_final nd then (self, gp) :: m' else m',
            H5o (p_class (n_pl nd)) fname (p_sattrs (n_pl nd)) (obj_data fname (n_pl nd)) it)
  end.
Proof. intros. reflexivity. Qed.

Local Open Scope nat_scope.

Section G.
  Variable g : gdataset.
  Variable lvl : Z.
  Variable rank : key -> nat.
  Hypothesis W : gwf g = true.
  Hypothesis Rk : granked rank g.

  Definition wl (q : path) : bool := written_leaf lvl (g_fields g) q.
  Definition wkey (k : key) : option path := match k with KF q => if wl q then Some q else None | KP _ => None end.
  Definition rkT (k : key) : nat := List.length (filter (fun kn : key * node => rank (fst kn) <? rank k) (g_objs g)).

  Lemma wkey_some : forall k q, wkey k = Some q -> k = KF q /\ wl q = true.
  Proof. intros [p|n] q; cbn; [|discriminate]. destruct (wl p) eqn:E; [|discriminate]. intro H. inversion H; subst. auto. Qed.

  Lemma wkey_KF : forall q, wl q = true -> wkey (KF q) = Some q.
  Proof. intros q H. cbn. rewrite H. reflexivity. Qed.

  Lemma rkT_edge : forall k nd a k', In (k, nd) (g_objs g) -> In (a, k') (n_refs nd) -> rkT k' < rkT k.
  Proof.
    intros k nd a k' Hin Ha. destruct (gwf_edge g W _ _ _ _ Hin Ha) as (nd' & K' & _).
    pose proof (Rk _ _ _ _ Hin Ha) as Lt. unfold rkT. apply filter_length_lt with (y := (k', nd')).
    - intros x _ Hx. apply Nat.ltb_lt in Hx. apply Nat.ltb_lt. lia.
    - apply klookup_in. exact K'.
    - cbn [fst]. apply Nat.ltb_ge. lia.
    - cbn [fst]. apply Nat.ltb_lt. exact Lt.
  Qed.

  Lemma rkT_le : forall k, rkT k <= List.length (g_objs g).
  Proof. intro k. apply filter_length_all. Qed.

  (* the file object o is the image of the node of k, names as in the memo M *)
  Fixpoint img (M : wmemo2) (o : h5o) (k : key) {struct o} : Prop :=
    match o with
    | H5o cls fname sattrs data items =>
        exists nd, klookup k (g_objs g) = Some nd /\ payload_of cls fname sattrs data = n_pl nd /\
          all2 (fun (ak : string * key) (it : string * h5item) =>
                  match it with
                  | (a', IName nm) => fst ak = a' /\ klookup (snd ak) M = Some nm
                  | (a', ISub o') => fst ak = a' /\ wkey (snd ak) = None /\
                                     (exists nm, klookup (snd ak) M = Some nm) /\ img M o' (snd ak)
                  end) (n_refs nd) items
    end.

  Definition iimg (M : wmemo2) (ak : string * key) (it : string * h5item) : Prop :=
    fst ak = fst it /\
    match snd it with
    | IName nm => klookup (snd ak) M = Some nm
    | ISub o' => wkey (snd ak) = None /\ (exists nm, klookup (snd ak) M = Some nm) /\ img M o' (snd ak)
    end.

  Lemma img_eq : forall M c f s d items k,
    img M (H5o c f s d items) k <->
    exists nd, klookup k (g_objs g) = Some nd /\ payload_of c f s d = n_pl nd /\ Forall2 (iimg M) (n_refs nd) items.
  Proof.
    intros M c f s d items k. cbn [img]. split; intros (nd & H1 & H2 & H3); exists nd; (split; [exact H1|split; [exact H2|]]).
    - apply all2_Forall2 in H3. eapply Forall2_impl_In; [|exact H3]. intros ak [a' [nm|o']] _ _ H; unfold iimg; cbn [fst snd]; exact H.
    - apply all2_Forall2. eapply Forall2_impl_In; [|exact H3]. intros ak [a' [nm|o']] _ _ H; unfold iimg in H; cbn [fst snd] in H; exact H.
  Qed.

  Definition mle (m m' : wmemo2) : Prop := forall k nm, klookup k m = Some nm -> klookup k m' = Some nm.
  Definition minit (m : wmemo2) : Prop := forall q, wl q = true -> klookup (KF q) m = Some q.
  Definition Img (m : wmemo2) (o : h5o) (k : key) : Prop := forall M, mle m M -> img M o k.
  Definition cntp (m : wmemo2) : nat :=
    List.length (filter (fun kn : key * node => match wkey (fst kn) with None => true | _ => false end &&
                                                 match klookup (fst kn) m with Some _ => true | None => false end) (g_objs g)).

  Lemma mle_refl : forall m, mle m m. Proof. intros m k nm H. exact H. Qed.
  Lemma mle_trans : forall a b c, mle a b -> mle b c -> mle a c.
  Proof. intros a b c H1 H2 k nm H. apply H2. apply H1. exact H. Qed.
  Lemma Img_mono : forall m m' o k, mle m m' -> Img m o k -> Img m' o k.
  Proof. intros m m' o k H I M HM. apply I. eapply mle_trans; eassumption. Qed.
  Lemma minit_mle : forall m m', mle m m' -> minit m -> minit m'.
  Proof. intros m m' H I q Hq. apply H. apply I. exact Hq. Qed.

  Lemma mle_cons_new : forall k v m, klookup k m = None -> mle m ((k, v) :: m).
  Proof.
    intros k v m H k0 nm H0. cbn [klookup]. destruct (key_eqb k0 k) eqn:E; [|exact H0].
    apply key_eqb_eq in E. subst k0. rewrite H in H0. discriminate.
  Qed.

  Lemma klookup_cons_same : forall (k : key) (v : path) m k0, klookup k m = Some v -> klookup k0 ((k, v) :: m) = klookup k0 m.
  Proof.
    intros k v m k0 H. cbn [klookup]. destruct (key_eqb k0 k) eqn:E; [|reflexivity].
    apply key_eqb_eq in E. subst k0. symmetry. exact H.
  Qed.

  Lemma cntp_ext : forall m m', (forall k, klookup k m' = klookup k m) -> cntp m' = cntp m.
  Proof. intros m m' H. unfold cntp. f_equal. apply filter_ext. intros [k nd]. cbn [fst]. rewrite H. reflexivity. Qed.

  Lemma cntp_cons : forall k v m, cntp ((k, v) :: m) <= S (cntp m).
  Proof.
    intros k v m. unfold cntp.
    eapply Nat.le_trans.
    - apply filter_length_le with (g := fun kn : key * node =>
        (match wkey (fst kn) with None => true | _ => false end && match klookup (fst kn) m with Some _ => true | None => false end)
        || key_eqb (fst kn) k).
      intros [k0 nd0] _. cbn [fst klookup]. destruct (key_eqb k0 k); [intros _; apply orb_true_r|].
      intro H. rewrite H. reflexivity.
    - eapply Nat.le_trans; [apply filter_length_or|]. pose proof (filter_key_le1 k (g_objs g) (gwf_nodup_keys g W)). lia.
  Qed.

  Lemma lookup_cons_other : forall {A} a x (it : list (string * A)) names a' v,
    map fst it = names -> existsb (String.eqb a) names = false -> lookup a' it = Some v -> lookup a' ((a, x) :: it) = Some v.
  Proof.
    intros A a x it names a' v Hm Hn H. cbn [lookup]. destruct (String.eqb a' a) eqn:E; [exfalso|exact H].
    apply String.eqb_eq in E. subst a'. apply lookup_in in H.
    assert (X : existsb (String.eqb a) names = true).
    { apply existsb_exists. exists a. split; [|apply String.eqb_refl]. rewrite <- Hm. apply in_map_iff. exists (a, v). auto. }
    rewrite X in Hn. discriminate.
  Qed.

  Definition wn_ok (n : nat) (wn : wmemo2 -> path -> string -> path -> key -> node -> option (wmemo2 * h5o)) : Prop :=
    forall m gp fname fnp self nd,
      klookup self (g_objs g) = Some nd -> rkT self < n -> klookup self m = Some gp -> minit m ->
      payload_ok fname (n_pl nd) = true -> attr_free fname nd = true ->
      exists m' o, wn m gp fname fnp self nd = Some (m', o) /\ mle m m' /\ Img m' o self /\
        (forall k nm, klookup k m = None -> klookup k m' = Some nm ->
           exists r o'', r <> [] /\ nm = gp ++ r /\ descend o r = Some o'' /\ Img m' o'' k) /\
        cntp m' + 1 <= cntp m + size_o o.

  Lemma wgo_ok : forall n wn gp fname, wn_ok n wn ->
    forall rs m, minit m -> nodup_str (map fst rs) = true ->
      (forall a k, In (a, k) rs -> String.eqb a fname = false /\ rkT k < n /\
          exists nd', klookup k (g_objs g) = Some nd' /\ payload_ok a (n_pl nd') = true /\ attr_free a nd' = true) ->
      exists m' it, wgo wn (g_objs g) gp fname m rs = Some (m', it) /\ mle m m' /\ map fst it = map fst rs /\
        (forall M, mle m' M -> Forall2 (iimg M) rs it) /\
        (forall k nm, klookup k m = None -> klookup k m' = Some nm ->
           exists a r o' o'', nm = gp ++ a :: r /\ lookup a it = Some (ISub o') /\ descend o' r = Some o'' /\ Img m' o'' k) /\
        cntp m' <= cntp m + isz it.
  Proof.
    intros n wn gp fname Hwn. induction rs as [|[a k] rs IH]; intros m Hi Hnd Hrs.
    - exists m, []. split; [reflexivity|]. split; [apply mle_refl|]. split; [reflexivity|]. split; [intros; constructor|].
      split; [|cbn; lia]. intros k nm H1 H2. rewrite H1 in H2. discriminate.
    - cbn [map fst nodup_str] in Hnd. apply andb_true_iff in Hnd. destruct Hnd as [Hna Hnd]. apply negb_true_iff in Hna.
      assert (Hrs' : forall a k, In (a, k) rs -> String.eqb a fname = false /\ rkT k < n /\
          exists nd', klookup k (g_objs g) = Some nd' /\ payload_ok a (n_pl nd') = true /\ attr_free a nd' = true)
        by (intros; apply Hrs; right; assumption).
      destruct (Hrs a k (or_introl eq_refl)) as (Hf & Hr & nd' & K' & P' & A').
      cbn [wgo]. destruct (klookup k m) as [nm0|] eqn:Km.
      + destruct (IH m Hi Hnd Hrs') as (m' & it & R & L & Hm & F & P3 & C). rewrite R.
        exists m', ((a, IName nm0) :: it). split; [reflexivity|]. split; [exact L|]. split; [cbn; f_equal; exact Hm|]. split; [|split].
        * intros M HM. constructor; [|apply F; exact HM]. split; [reflexivity|]. cbn [fst snd]. apply HM. apply L. exact Km.
        * intros k0 nm H1 H2. destruct (P3 k0 nm H1 H2) as (a0 & r & o' & o'' & E1 & E2 & E3 & E4).
          exists a0, r, o', o''. split; [exact E1|]. split; [|split; assumption].
          eapply lookup_cons_other; eassumption.
        * cbn [isz]. exact C.
      + rewrite Hf. rewrite K'.
        assert (Wk : wkey k = None).
        { destruct (wkey k) as [q|] eqn:E; [|reflexivity]. apply wkey_some in E. destruct E as [-> Hq].
          rewrite (Hi q Hq) in Km. discriminate. }
        assert (Hi1 : minit ((k, gp ++ [a]) :: m)) by (eapply minit_mle; [apply mle_cons_new; exact Km|exact Hi]).
        assert (Ks : klookup k ((k, gp ++ [a]) :: m) = Some (gp ++ [a])) by (cbn; rewrite key_eqb_refl; reflexivity).
        destruct (Hwn ((k, gp ++ [a]) :: m) (gp ++ [a]) a [a] k nd' K' Hr Ks Hi1 P' A') as (m2 & o & R2 & L2 & I2 & Q2 & C2).
        rewrite R2.
        assert (Hi2 : minit m2) by (eapply minit_mle; eassumption).
        destruct (IH m2 Hi2 Hnd Hrs') as (m3 & it & R & L & Hm & F & P3 & C). rewrite R.
        assert (L02 : mle m m2) by (eapply mle_trans; [apply mle_cons_new; exact Km|exact L2]).
        exists m3, ((a, ISub o) :: it). split; [reflexivity|]. split; [eapply mle_trans; eassumption|].
        split; [cbn; f_equal; exact Hm|]. split; [|split].
        * intros M HM. constructor; [|apply F; exact HM]. split; [reflexivity|]. cbn [fst snd].
          split; [exact Wk|]. split.
          -- exists (gp ++ [a]). apply HM. apply L. apply L2. exact Ks.
          -- apply I2. eapply mle_trans; eassumption.
        * intros k0 nm H1 H3. destruct (klookup k0 m2) as [nm2|] eqn:K2.
          -- pose proof (L _ _ K2) as X. rewrite H3 in X. inversion X; subst nm2. clear X.
             destruct (key_eqb k0 k) eqn:Ek.
             ++ apply key_eqb_eq in Ek. subst k0. pose proof (L2 _ _ Ks) as X. rewrite K2 in X. inversion X; subst nm.
                exists a, [], o, o. split; [reflexivity|]. split; [cbn; rewrite String.eqb_refl; reflexivity|].
                split; [reflexivity|]. eapply Img_mono; eassumption.
             ++ assert (K1 : klookup k0 ((k, gp ++ [a]) :: m) = None) by (cbn; rewrite Ek; exact H1).
                destruct (Q2 k0 nm K1 K2) as (r & o'' & Nr & E1 & E2 & E3).
                exists a, r, o, o''. split; [rewrite E1; rewrite <- app_assoc; reflexivity|].
                split; [cbn; rewrite String.eqb_refl; reflexivity|]. split; [exact E2|]. eapply Img_mono; eassumption.
          -- destruct (P3 k0 nm K2 H3) as (a0 & r & o' & o'' & E1 & E2 & E3 & E4).
             exists a0, r, o', o''. split; [exact E1|]. split; [|split; assumption].
             eapply lookup_cons_other; eassumption.
        * cbn [isz]. assert (C0 : cntp ((k, gp ++ [a]) :: m) <= S (cntp m)) by apply cntp_cons. lia.
  Qed.

  Lemma write_node_ok : forall n, wn_ok n (write_node n false (g_objs g)).
  Proof.
    induction n as [|n IHn]; intros m gp fname fnp self nd K Lr Ks Hi P A; [lia|].
    rewrite write_node_S.
    assert (Hin : In (self, nd) (g_objs g)) by (apply klookup_in; exact K).
    assert (IHn' : wn_ok (rkT self) (write_node n false (g_objs g))).
    { intros m0 gp0 fname0 fnp0 self0 nd0 K0 Lr0. apply IHn; [exact K0|lia]. }
    destruct (wgo_ok (rkT self) _ gp fname IHn' (n_refs nd) m Hi (gwf_refs_nodup g W _ _ Hin)) as (m' & it & R & L & Hm & F & P3 & C).
    { intros a k Ha. split; [|split].
      - unfold attr_free in A. apply negb_true_iff in A. destruct (String.eqb a fname) eqn:E; [|reflexivity].
        apply String.eqb_eq in E. subst a.
        assert (X : existsb (String.eqb fname) (map fst (n_refs nd)) = true).
        { apply existsb_exists. exists fname. split; [|apply String.eqb_refl]. apply in_map_iff. exists (fname, k). auto. }
        rewrite X in A. discriminate.
      - eapply rkT_edge; eassumption.
      - eapply gwf_edge; eassumption. }
    rewrite R.
    set (m'' := if n_final nd then (self, gp) :: m' else m').
    assert (Eq : forall k0, klookup k0 m'' = klookup k0 m').
    { intro k0. unfold m''. destruct (n_final nd); [|reflexivity]. apply klookup_cons_same. apply L. exact Ks. }
    assert (L1 : mle m' m'') by (intros k0 nm0 H0; rewrite Eq; exact H0).
    assert (L2 : mle m'' m') by (intros k0 nm0 H0; rewrite <- Eq; exact H0).
    exists m'', (H5o (p_class (n_pl nd)) fname (p_sattrs (n_pl nd)) (obj_data fname (n_pl nd)) it).
    split; [reflexivity|]. split; [eapply mle_trans; eassumption|]. split; [|split].
    - intros M HM. apply img_eq. exists nd. split; [exact K|]. split; [apply payload_of_roundtrip; exact P|].
      apply F. eapply mle_trans; eassumption.
    - intros k nm H1 H2. rewrite Eq in H2. destruct (P3 k nm H1 H2) as (a0 & r & o' & o'' & E1 & E2 & E3 & E4).
      exists (a0 :: r), o''. split; [discriminate|]. split; [exact E1|]. split; [cbn [descend]; rewrite E2; exact E3|].
      eapply Img_mono; eassumption.
    - rewrite (cntp_ext _ _ Eq). rewrite size_o_eq. lia.
  Qed.


  (* ---------------------------------------------------------------- the groups of the file *)
  Definition gleaf_of (l : gleaf) (o : h5o) : h5leaf2 :=
    {| g2_kind := gl_kind l; g2_unit := uenc (gl_unit l); g2_level := level_name (gl_level l); g2_mult := gl_mult l; g2_obj := o |}.

  Definition grel (M : wmemo2) (pe : path * gentry) (ph : path * h5entry2) : Prop :=
    fst pe = fst ph /\
    match snd pe with
    | GColl => snd ph = HColl2 (last (fst pe) ""%string) (enc_of (gfields_dict lvl (g_fields g) (fst pe)))
    | GLeaf l => exists o, snd ph = HLeaf2 (gleaf_of l o) /\ img M o (KF (fst pe))
    end.

  Definition kfs (fs : list (path * gentry)) : list (path * gentry) := filter (fun pe => gkept lvl (snd pe)) fs.

  Definition gsz (gs : list (path * h5entry2)) : nat :=
    fold_right (fun pe n => (match snd pe with HLeaf2 gr => size_o (g2_obj gr) | _ => O end + n)%nat) O gs.
  Definition nleaf (gs : list (path * h5entry2)) : nat :=
    List.length (filter (fun pe : path * h5entry2 => match snd pe with HLeaf2 _ => true | _ => false end) gs).

  Lemma wl_in : forall p l, In (p, GLeaf l) (g_fields g) -> (lvl <=? gl_level l)%Z = true -> wl p = true.
  Proof.
    intros p l Hin E. unfold wl, written_leaf. rewrite (in_plookup p _ _ (gwf_nodup g W) Hin). exact E.
  Qed.

  Lemma wl_inv : forall p, wl p = true -> exists l, In (p, GLeaf l) (g_fields g) /\ (lvl <=? gl_level l)%Z = true.
  Proof.
    intros p H. unfold wl, written_leaf in H. destruct (plookup p (g_fields g)) as [[l|]|] eqn:E; try discriminate.
    exists l. split; [apply plookup_in; exact E|exact H].
  Qed.

  Lemma write_fields2_ok : forall n, List.length (g_objs g) < n -> forall fs m,
    (forall p e, In (p, e) fs -> In (p, e) (g_fields g)) -> minit m ->
    exists M gs, write_fields2 n false lvl g m fs = Some gs /\ mle m M /\ Forall2 (grel M) (kfs fs) gs /\
      (forall k nm, klookup k m = None -> klookup k M = Some nm ->
         exists p l o r o'', In (p, HLeaf2 (gleaf_of l o)) gs /\ r <> [] /\ nm = p ++ r /\ descend o r = Some o'' /\ img M o'' k) /\
      cntp M + nleaf gs <= cntp m + gsz gs.
  Proof.
    intros n Ln. induction fs as [|[p e] fs IH]; intros m Hsub Hi.
    - exists m, []. split; [reflexivity|]. split; [apply mle_refl|]. split; [constructor|]. split; [|cbn; lia].
      intros k nm H1 H2. rewrite H1 in H2. discriminate.
    - assert (Hsub' : forall p e, In (p, e) fs -> In (p, e) (g_fields g)) by (intros; apply Hsub; right; assumption).
      cbn [write_fields2]. unfold kfs. cbn [filter snd]. fold (kfs fs). destruct e as [l|].
      + cbn [gkept]. destruct (lvl <=? gl_level l)%Z eqn:E; cbn [negb]; [|apply IH; assumption].
        pose proof (Hsub p _ (or_introl eq_refl)) as Hin.
        destruct (gwf_leaf g W p l Hin) as [Hlv [nd K]]. rewrite K.
        pose proof (wl_in p l Hin E) as Wp.
        destruct (gwf_fnode g W p nd (klookup_in _ _ _ K)) as (_ & P & A).
        assert (Lr : rkT (KF p) < n) by (pose proof (rkT_le (KF p)); lia).
        destruct (write_node_ok n m p (dotted p) p (KF p) nd K Lr (Hi p Wp) Hi P A) as (m1 & o & R1 & L1 & I1 & Q1 & C1).
        rewrite R1. rewrite (L1 _ _ (Hi p Wp)). rewrite unit_attr_spec.
        destruct (IH m1 Hsub' (minit_mle _ _ L1 Hi)) as (M & gs & R & L & F & P3 & C). rewrite R.
        exists M. eexists. split; [reflexivity|]. split; [eapply mle_trans; eassumption|]. split; [|split].
        * constructor; [|exact F]. split; [reflexivity|]. cbn [fst snd]. exists o. split; [reflexivity|]. apply I1. exact L.
        * intros k nm H1 H2. destruct (klookup k m1) as [nm1|] eqn:K1.
          -- pose proof (L _ _ K1) as X. rewrite H2 in X. inversion X; subst nm1. clear X.
             destruct (Q1 k nm H1 K1) as (r & o'' & Nr & E1 & E2 & E3).
             exists p, l, o, r, o''. split; [left; reflexivity|]. split; [exact Nr|]. split; [exact E1|]. split; [exact E2|].
             apply E3. exact L.
          -- destruct (P3 k nm K1 H2) as (p0 & l0 & o0 & r & o'' & X1 & X2).
             exists p0, l0, o0, r, o''. split; [right; exact X1|exact X2].
        * unfold nleaf, gsz in *. cbn [filter snd fold_right List.length g2_obj gleaf_of]. lia.
      + cbn [gkept negb]. destruct (enc_attr_spec (gfields_dict lvl (g_fields g) p) eq_refl) as [X _]. rewrite X.
        destruct (IH m Hsub' Hi) as (M & gs & R & L & F & P3 & C). rewrite R.
        exists M. eexists. split; [reflexivity|]. split; [exact L|]. split; [|split].
        * constructor; [|exact F]. split; reflexivity.
        * intros k nm H1 H2. destruct (P3 k nm H1 H2) as (p0 & l0 & o0 & r & o'' & X1 & X2).
          exists p0, l0, o0, r, o''. split; [right; exact X1|exact X2].
        * unfold nleaf, gsz in *. cbn [filter snd fold_right List.length]. lia.
  Qed.

  Lemma init_memo2_spec : forall fs q, nodup_paths (map fst fs) = true ->
    klookup (KF q) (init_memo2 lvl fs) = if written_leaf lvl fs q then Some q else None.
  Proof.
    intros fs q. induction fs as [|[p e] fs IH]; intro ND; [reflexivity|].
    cbn [map fst nodup_paths] in ND. apply andb_true_iff in ND. destruct ND as [Hn ND]. apply negb_true_iff in Hn.
    specialize (IH ND). unfold init_memo2. cbn [flat_map]. fold (init_memo2 lvl fs).
    unfold written_leaf. cbn [plookup]. destruct (path_eqb q p) eqn:Eq.
    - apply path_eqb_eq in Eq. subst q.
      assert (N : plookup p fs = None).
      { destruct (plookup p fs) as [x|] eqn:X; [|reflexivity]. apply plookup_in in X.
        assert (Y : existsb (path_eqb p) (map fst fs) = true).
        { apply existsb_exists. exists p. split; [|apply path_eqb_refl]. apply in_map_iff. exists (p, x). auto. }
        rewrite Y in Hn. discriminate. }
      unfold written_leaf in IH. rewrite N in IH.
      destruct e as [l|]; [|exact IH]. destruct (lvl <=? gl_level l)%Z; [|exact IH].
      cbn. rewrite path_eqb_refl. reflexivity.
    - unfold written_leaf in IH. destruct e as [l|]; [|exact IH]. destruct (lvl <=? gl_level l)%Z; [|exact IH].
      cbn. rewrite Eq. exact IH.
  Qed.

  Lemma init_memo2_KP : forall fs n, klookup (KP n) (init_memo2 lvl fs) = None.
  Proof.
    intros fs n. induction fs as [|[p e] fs IH]; [reflexivity|]. unfold init_memo2. cbn [flat_map]. fold (init_memo2 lvl fs).
    destruct e as [l|]; [|exact IH]. destruct (lvl <=? gl_level l)%Z; [|exact IH]. cbn. exact IH.
  Qed.

  Lemma init_wkey : forall k, klookup k (init_memo2 lvl (g_fields g)) = wkey k.
  Proof.
    intros [q|n]; [|apply init_memo2_KP]. rewrite (init_memo2_spec _ _ (gwf_nodup g W)). reflexivity.
  Qed.

  Lemma cntp_init : cntp (init_memo2 lvl (g_fields g)) = 0.
  Proof.
    unfold cntp. assert (X : forall l : list (key * node), filter (fun kn : key * node => match wkey (fst kn) with None => true | _ => false end &&
       match klookup (fst kn) (init_memo2 lvl (g_fields g)) with Some _ => true | None => false end) l = []).
    { induction l as [|[k nd] l IHl]; [reflexivity|]. cbn [filter fst]. rewrite init_wkey. destruct (wkey k); cbn; exact IHl. }
    rewrite X. reflexivity.
  Qed.


  Lemma nodup_paths_filter : forall {A} (P : path * A -> bool) (l : list (path * A)),
    nodup_paths (map fst l) = true -> nodup_paths (map fst (filter P l)) = true.
  Proof.
    intros A P l. induction l as [|[p x] l IH]; cbn; [reflexivity|]. intro H. apply andb_true_iff in H. destruct H as [Hn Hd].
    destruct (P (p, x)); [|apply IH; exact Hd]. cbn. rewrite (IH Hd). rewrite andb_true_r.
    apply negb_true_iff. apply negb_true_iff in Hn. destruct (existsb (path_eqb p) (map fst (filter P l))) eqn:E; [|reflexivity].
    apply existsb_exists in E. destruct E as (q & Hq & Eq). apply in_map_iff in Hq. destruct Hq as ([q' y] & <- & Hy).
    apply filter_In in Hy. destruct Hy as [Hy _].
    assert (X : existsb (path_eqb p) (map fst l) = true).
    { apply existsb_exists. exists q'. split; [apply in_map_iff; exists (q', y); auto|exact Eq]. }
    rewrite X in Hn. discriminate.
  Qed.

  Lemma Forall2_map_fst : forall {A B C} (R : A * B -> A * C -> Prop) l l', (forall x y, R x y -> fst x = fst y) ->
    Forall2 R l l' -> map fst l = map fst l'.
  Proof. intros A B C R l l' H F. induction F; cbn; [reflexivity|]. f_equal; [apply H; assumption|assumption]. Qed.

  (* ---------------------------------------------------------------- the written file *)
  Section File.
    Variable M : wmemo2.
    Variable f : h5file2.
    Hypothesis HF : Forall2 (grel M) (kfs (g_fields g)) (f2_groups f).
    Hypothesis HM0 : mle (init_memo2 lvl (g_fields g)) M.
    Hypothesis HP3 : forall k nm, wkey k = None -> klookup k M = Some nm ->
         exists p l o r o'', In (p, HLeaf2 (gleaf_of l o)) (f2_groups f) /\ r <> [] /\ nm = p ++ r /\
                             descend o r = Some o'' /\ img M o'' k.
    Hypothesis HC : cntp M + nleaf (f2_groups f) <= gsz (f2_groups f).

    Lemma gs_nodup : nodup_paths (map fst (f2_groups f)) = true.
    Proof.
      rewrite <- (Forall2_map_fst _ _ _ (fun x y H => proj1 H) HF). apply nodup_paths_filter. apply (gwf_nodup g W).
    Qed.

    Lemma gs_leaf : forall p gr, In (p, HLeaf2 gr) (f2_groups f) ->
      exists l o, In (p, GLeaf l) (g_fields g) /\ (lvl <=? gl_level l)%Z = true /\ gr = gleaf_of l o /\ img M o (KF p).
    Proof.
      intros p gr Hin. destruct (Forall2_in_r _ _ _ _ HF Hin) as ([p' e] & He & [H1 H2]). cbn [fst snd] in *. subst p'.
      apply filter_In in He. destruct He as [He Hk]. cbn [snd] in Hk. destruct e as [l|]; [|discriminate].
      destruct H2 as (o & Ho & Hi). inversion Ho; subst gr. exists l, o. auto.
    Qed.

    Lemma gs_of_wl : forall q, wl q = true ->
      exists l o, In (q, GLeaf l) (g_fields g) /\ In (q, HLeaf2 (gleaf_of l o)) (f2_groups f) /\ img M o (KF q).
    Proof.
      intros q Hq. destruct (wl_inv q Hq) as (l & Hin & E).
      assert (Hk : In (q, GLeaf l) (kfs (g_fields g))) by (apply filter_In; split; [exact Hin|exact E]).
      destruct (Forall2_in_l _ _ _ _ HF Hk) as ([p' he] & Hh & [H1 H2]). cbn [fst snd] in *. subst p'.
      destruct H2 as (o & -> & Hi). exists l, o. auto.
    Qed.

    Lemma gs_not_wl : forall p gr r, In (p, HLeaf2 gr) (f2_groups f) -> r <> [] -> wl (p ++ r) = false.
    Proof.
      intros p gr r Hin Nr. destruct (wl (p ++ r)) eqn:E; [|reflexivity]. exfalso.
      destruct (gs_leaf _ _ Hin) as (l & o & Hl & _). destruct (wl_inv _ E) as (l' & Hl' & _).
      apply Nr. exact (leaf_prefix g W _ _ _ _ Hl Hl').
    Qed.

    Lemma gs_find : forall p gr r, In (p, HLeaf2 gr) (f2_groups f) ->
      find (fun pe : path * h5entry2 => match snd pe with HLeaf2 _ => is_prefix (fst pe) (p ++ r) | _ => false end) (f2_groups f)
      = Some (p, HLeaf2 gr).
    Proof.
      intros p gr r Hin.
      destruct (find (fun pe : path * h5entry2 => match snd pe with HLeaf2 _ => is_prefix (fst pe) (p ++ r) | _ => false end) (f2_groups f))
        as [[p' he]|] eqn:Fd.
      - apply find_some in Fd. destruct Fd as [Hin' Hp]. cbn [fst snd] in Hp. destruct he as [gr'|]; [|discriminate].
        apply is_prefix_app in Hp. destruct Hp as [r' Hr'].
        destruct (gs_leaf _ _ Hin) as (l & o & Hl & _). destruct (gs_leaf _ _ Hin') as (l' & o' & Hl' & _).
        assert (E : p' = p).
        { destruct (app_prefix_cmp _ _ _ _ Hr') as [[s Hs]|[s Hs]].
          - subst p'. pose proof (leaf_prefix g W _ _ _ _ Hl Hl'). subst s. apply app_nil_r.
          - subst p. pose proof (leaf_prefix g W _ _ _ _ Hl' Hl). subst s. symmetry. apply app_nil_r. }
        subst p'. f_equal. f_equal. eapply nodup_paths_fun; [apply gs_nodup|eassumption|eassumption].
      - exfalso. pose proof (find_none _ _ Fd _ Hin) as X. cbn [fst snd] in X.
        assert (Y : is_prefix p (p ++ r) = true) by (apply is_prefix_app; exists r; reflexivity). rewrite Y in X. discriminate.
    Qed.

    Lemma gs_find_o : forall p gr r o, In (p, HLeaf2 gr) (f2_groups f) -> descend (g2_obj gr) r = Some o ->
      exists fnp, find_o f (p ++ r) = Some (fnp, o).
    Proof.
      intros p gr r o Hin D. unfold find_o. rewrite (gs_find p gr r Hin).
      assert (X : skipn (List.length p) (p ++ r) = r).
      { rewrite skipn_app. rewrite skipn_all. rewrite Nat.sub_diag. reflexivity. }
      rewrite X. rewrite D. eexists. reflexivity.
    Qed.

    Definition at_o (gp : path) (o : h5o) : Prop :=
      exists p gr r, In (p, HLeaf2 gr) (f2_groups f) /\ gp = p ++ r /\ descend (g2_obj gr) r = Some o.

    Lemma at_find : forall gp o, at_o gp o -> exists fnp, find_o f gp = Some (fnp, o).
    Proof. intros gp o (p & gr & r & Hin & -> & D). eapply gs_find_o; eassumption. Qed.

    Lemma at_fun : forall gp o o', at_o gp o -> at_o gp o' -> o = o'.
    Proof.
      intros gp o o' H H'. destruct (at_find _ _ H) as [x X]. destruct (at_find _ _ H') as [y Y]. rewrite X in Y. congruence.
    Qed.

    Lemma at_sub : forall gp c fn s d items a o', at_o gp (H5o c fn s d items) -> lookup a items = Some (ISub o') ->
      at_o (gp ++ [a]) o'.
    Proof.
      intros gp c fn s d items a o' (p & gr & r & Hin & -> & D) L. exists p, gr, (r ++ [a]). split; [exact Hin|].
      split; [symmetry; apply app_assoc|]. rewrite (descend_app _ _ _ [a] D). cbn. rewrite L. reflexivity.
    Qed.

    Lemma at_sub_not_wl : forall gp o a, at_o gp o -> wl (gp ++ [a]) = false.
    Proof.
      intros gp o a (p & gr & r & Hin & -> & D). rewrite <- app_assoc. eapply gs_not_wl; [exact Hin|].
      destruct r; discriminate.
    Qed.

    Lemma at_field : forall q, wl q = true -> exists o, at_o q o /\ img M o (KF q).
    Proof.
      intros q Hq. destruct (gs_of_wl q Hq) as (l & o & _ & Hin & Hi). exists o. split; [|exact Hi].
      exists q, (gleaf_of l o), []. split; [exact Hin|]. split; [symmetry; apply app_nil_r|reflexivity].
    Qed.

    Lemma M_wkey : forall k q, wkey k = Some q -> klookup k M = Some q.
    Proof. intros k q H. apply HM0. rewrite init_wkey. exact H. Qed.

    Lemma M_priv : forall k nm, wkey k = None -> klookup k M = Some nm -> wl nm = false /\ exists o, at_o nm o /\ img M o k.
    Proof.
      intros k nm Wk K. destruct (HP3 k nm Wk K) as (p & l & o & r & o'' & Hin & Nr & -> & D & I).
      split; [eapply gs_not_wl; eassumption|]. exists o''. split; [|exact I]. exists p, (gleaf_of l o), r. auto.
    Qed.

    (* the rank that bounds the recursion of read_o: only objects that are in the file count *)
    Definition rkM (k : key) : nat :=
      List.length (filter (fun pe : path * gentry => match snd pe with
                            | GLeaf l => (lvl <=? gl_level l)%Z && (rank (KF (fst pe)) <? rank k)
                            | GColl => false end) (g_fields g)) +
      List.length (filter (fun kn : key * node => match wkey (fst kn) with None => true | _ => false end &&
                                                   match klookup (fst kn) M with Some _ => true | None => false end &&
                                                   (rank (fst kn) <? rank k)) (g_objs g)).

    Lemma nleaf_eq : forall fs gs, Forall2 (grel M) (kfs fs) gs ->
      List.length (filter (fun pe : path * gentry => match snd pe with GLeaf l => (lvl <=? gl_level l)%Z | GColl => false end) fs) = nleaf gs.
    Proof.
      induction fs as [|[p e] fs IH]; intros gs F.
      - inversion F. reflexivity.
      - unfold kfs in F. cbn [filter snd] in *. fold (kfs fs) in F. destruct e as [l|]; cbn [gkept] in F.
        + destruct (lvl <=? gl_level l)%Z; [|apply IH; exact F]. inversion F as [|x y xs ys Hxy F']; subst.
          destruct y as [p' he]. destruct Hxy as [_ (o & Ho & _)]. cbn [snd] in Ho. subst he.
          unfold nleaf. cbn [filter snd List.length]. f_equal. apply IH. exact F'.
        + inversion F as [|x y xs ys Hxy F']; subst. destruct y as [p' he]. destruct Hxy as [_ Ho]. cbn [snd] in Ho. subst he.
          unfold nleaf. cbn [filter snd]. apply IH. exact F'.
    Qed.

    Lemma rkM_le : forall k, rkM k <= gsz (f2_groups f).
    Proof.
      intro k. unfold rkM.
      assert (A : List.length (filter (fun pe : path * gentry => match snd pe with
                            | GLeaf l => (lvl <=? gl_level l)%Z && (rank (KF (fst pe)) <? rank k)
                            | GColl => false end) (g_fields g)) <= nleaf (f2_groups f)).
      { rewrite <- (nleaf_eq _ _ HF). apply filter_length_le. intros [p [l|]] _; cbn [snd]; [|discriminate].
        intro H. apply andb_true_iff in H. tauto. }
      assert (B : List.length (filter (fun kn : key * node => match wkey (fst kn) with None => true | _ => false end &&
                                                   match klookup (fst kn) M with Some _ => true | None => false end &&
                                                   (rank (fst kn) <? rank k)) (g_objs g)) <= cntp M).
      { unfold cntp. apply filter_length_le. intros [k0 nd0] _ H. apply andb_true_iff in H. tauto. }
      lia.
    Qed.

    Lemma rkM_edge : forall k nd a k', In (k, nd) (g_objs g) -> In (a, k') (n_refs nd) ->
      (match wkey k' with Some _ => True | None => exists nm, klookup k' M = Some nm end) -> rkM k' < rkM k.
    Proof.
      intros k nd a k' Hin Ha Hd. pose proof (Rk _ _ _ _ Hin Ha) as Lt. unfold rkM.
      set (f1 := fun k0 => fun pe : path * gentry => match snd pe with
                            | GLeaf l => (lvl <=? gl_level l)%Z && (rank (KF (fst pe)) <? rank k0)
                            | GColl => false end).
      set (f2 := fun k0 => fun kn : key * node => match wkey (fst kn) with None => true | _ => false end &&
                                                   match klookup (fst kn) M with Some _ => true | None => false end &&
                                                   (rank (fst kn) <? rank k0)).
      change (List.length (filter (f1 k') (g_fields g)) + List.length (filter (f2 k') (g_objs g)) <
              List.length (filter (f1 k) (g_fields g)) + List.length (filter (f2 k) (g_objs g))).
      assert (L1 : List.length (filter (f1 k') (g_fields g)) <= List.length (filter (f1 k) (g_fields g))).
      { apply filter_length_le. intros [p [l|]] _; unfold f1; cbn [fst snd]; [|discriminate]. intro H.
        apply andb_true_iff in H. destruct H as [H1 H2]. rewrite H1. apply Nat.ltb_lt in H2. cbn. apply Nat.ltb_lt. lia. }
      assert (L2 : List.length (filter (f2 k') (g_objs g)) <= List.length (filter (f2 k) (g_objs g))).
      { apply filter_length_le. intros [k0 nd0] _; unfold f2; cbn [fst snd]. intro H.
        apply andb_true_iff in H. destruct H as [H1 H2]. rewrite H1. apply Nat.ltb_lt in H2. cbn. apply Nat.ltb_lt. lia. }
      destruct (wkey k') as [q|] eqn:Wk.
      - apply wkey_some in Wk. destruct Wk as [-> Hq]. destruct (wl_inv q Hq) as (l & Hl & E).
        assert (X : List.length (filter (f1 (KF q)) (g_fields g)) < List.length (filter (f1 k) (g_fields g))).
        { apply filter_length_lt with (y := (q, GLeaf l)).
          - intros [p [l0|]] _; unfold f1; cbn [fst snd]; [|discriminate]. intro H.
            apply andb_true_iff in H. destruct H as [H1 H2]. rewrite H1. apply Nat.ltb_lt in H2. cbn. apply Nat.ltb_lt. lia.
          - exact Hl.
          - unfold f1. cbn [fst snd]. rewrite E. cbn. apply Nat.ltb_ge. lia.
          - unfold f1. cbn [fst snd]. rewrite E. cbn. apply Nat.ltb_lt. exact Lt. }
        lia.
      - destruct Hd as [nm Hnm]. destruct (gwf_edge g W _ _ _ _ Hin Ha) as (nd' & K' & _).
        assert (X : List.length (filter (f2 k') (g_objs g)) < List.length (filter (f2 k) (g_objs g))).
        { apply filter_length_lt with (y := (k', nd')).
          - intros [k0 nd0] _; unfold f2; cbn [fst snd]. intro H.
            apply andb_true_iff in H. destruct H as [H1 H2]. rewrite H1. apply Nat.ltb_lt in H2. cbn. apply Nat.ltb_lt. lia.
          - apply klookup_in. exact K'.
          - unfold f2. cbn [fst snd]. rewrite Wk, Hnm. cbn. apply Nat.ltb_ge. lia.
          - unfold f2. cbn [fst snd]. rewrite Wk, Hnm. cbn. apply Nat.ltb_lt. exact Lt. }
        lia.
    Qed.

    (* ---------------------------------------------------------------- the invariant of read *)
    Definition nonfield (mm : list (path * nat)) (id : nat) : Prop := forall q, wl q = true -> plookup q mm <> Some id.

    (* the heap object id represents the node of k: references to written fields by identity, all others by value *)
    Inductive rep (mm : list (path * nat)) (hp : list (nat * robj)) : key -> nat -> Prop :=
    | rep_intro : forall k id nd ro,
        klookup k (g_objs g) = Some nd -> nlookup id hp = Some ro -> r_pl ro = n_pl nd ->
        Forall2 (fun (ak : string * key) (ai : string * nat) =>
                   fst ak = fst ai /\ snd ai < id /\
                   (forall q, wkey (snd ak) = Some q -> plookup q mm = Some (snd ai)) /\
                   (wkey (snd ak) = None -> nonfield mm (snd ai) /\ rep mm hp (snd ak) (snd ai)))
                (n_refs nd) (r_refs ro) ->
        rep mm hp k id.

    Definition repS (st : rstate2) (k : key) (id : nat) : Prop := rep (memo2 st) (heap2 st) k id.

    Record Inv (st : rstate2) : Prop := {
      inv_heap : forall id ro, nlookup id (heap2 st) = Some ro -> id < next2 st;
      inv_len : List.length (heap2 st) = next2 st;
      inv_w : forall q id, wl q = true -> plookup q (memo2 st) = Some id -> id < next2 st /\ repS st (KF q) id;
      inv_dist : forall q1 q2 id, wl q1 = true -> wl q2 = true ->
                   plookup q1 (memo2 st) = Some id -> plookup q2 (memo2 st) = Some id -> q1 = q2;
      inv_n : forall nm id, wl nm = false -> plookup nm (memo2 st) = Some id ->
                id < next2 st /\ nonfield (memo2 st) id /\ forall k, klookup k M = Some nm -> repS st k id }.

    Record ext (n : nat) (st st' : rstate2) : Prop := {
      ext_next : next2 st <= next2 st';
      ext_heap : forall id, id < next2 st -> nlookup id (heap2 st') = nlookup id (heap2 st);
      ext_stab : forall q id, wl q = true -> plookup q (memo2 st) = Some id -> plookup q (memo2 st') = Some id;
      ext_new : forall q id, wl q = true -> plookup q (memo2 st) = None -> plookup q (memo2 st') = Some id ->
                  next2 st <= id /\ rkM (KF q) < n }.

    Lemma ext_refl : forall n st, ext n st st.
    Proof. intros n st. constructor; auto. intros q id _ H1 H2. rewrite H1 in H2. discriminate. Qed.

    Lemma ext_mono : forall n m st st', n <= m -> ext n st st' -> ext m st st'.
    Proof.
      intros n m st st' L [a b c d]. constructor; auto. intros q id H1 H2 H3. destruct (d q id H1 H2 H3). split; lia.
    Qed.

    Lemma ext_trans : forall n st st' st'', ext n st st' -> ext n st' st'' -> ext n st st''.
    Proof.
      intros n st st' st'' [a b c d] [a' b' c' d']. constructor.
      - lia.
      - intros id L. rewrite b' by lia. apply b. exact L.
      - intros q id Hq H. apply c'; [exact Hq|]. apply c; assumption.
      - intros q id Hq H H''. destruct (plookup q (memo2 st')) as [id'|] eqn:H'.
        + pose proof (c' q id' Hq H') as X. rewrite H'' in X. inversion X; subst. eapply d; eassumption.
        + destruct (d' q id Hq H' H''). split; lia.
    Qed.

    Lemma nonfield_ext : forall n st st' id, ext n st st' -> id < next2 st -> nonfield (memo2 st) id -> nonfield (memo2 st') id.
    Proof.
      intros n st st' id E L Hn q Hq H'. destruct (plookup q (memo2 st)) as [x|] eqn:H.
      - pose proof (ext_stab _ _ _ E q x Hq H) as X. rewrite H' in X. inversion X; subst. exact (Hn q Hq H).
      - destruct (ext_new _ _ _ E q id Hq H H'). lia.
    Qed.

    Lemma rep_ext : forall n st st', ext n st st' -> forall id k, id < next2 st -> repS st k id -> repS st' k id.
    Proof.
      intros n st st' E id. induction id as [id IH] using lt_wf_ind. intros k L H. unfold repS in *.
      inversion H as [k0 id0 nd ro K Hh Hp F]; subst k0 id0.
      apply rep_intro with (nd := nd) (ro := ro); [exact K|rewrite (ext_heap _ _ _ E) by exact L; exact Hh|exact Hp|].
      eapply Forall2_impl_In; [|exact F]. intros [a k'] [a' id'] _ _ (H1 & H2 & H3 & H4). cbn [fst snd] in *.
      split; [exact H1|]. split; [exact H2|]. split.
      - intros q Hq. destruct (wkey_some _ _ Hq) as [_ Wq]. eapply ext_stab; [exact E|exact Wq|]. apply H3. exact Hq.
      - intro Hk. destruct (H4 Hk) as [N R]. split.
        + eapply nonfield_ext; [exact E| |exact N]. lia.
        + apply IH; [exact H2|lia|exact R].
    Qed.

    (* a reference of a node, read as the object id *)
    Definition chrel (st : rstate2) (ak : string * key) (ai : string * nat) : Prop :=
      fst ak = fst ai /\ snd ai < next2 st /\
      (forall q, wkey (snd ak) = Some q -> plookup q (memo2 st) = Some (snd ai)) /\
      (wkey (snd ak) = None -> nonfield (memo2 st) (snd ai) /\ repS st (snd ak) (snd ai)).

    Lemma chrel_ext : forall n st st' ak ai, ext n st st' -> chrel st ak ai -> chrel st' ak ai.
    Proof.
      intros n st st' [a k'] [a' id'] E (H1 & H2 & H3 & H4). cbn [fst snd] in *. pose proof (ext_next _ _ _ E).
      split; [exact H1|]. split; [cbn [snd]; lia|]. cbn [fst snd]. split.
      - intros q Hq. destruct (wkey_some _ _ Hq) as [_ Wq]. eapply ext_stab; [exact E|exact Wq|]. apply H3. exact Hq.
      - intro Hk. destruct (H4 Hk) as [N R]. split; [eapply nonfield_ext; eassumption|eapply rep_ext; eassumption].
    Qed.

    (* a step that leaves heap, next and all lookups alone *)
    Lemma feq_step : forall st st', heap2 st' = heap2 st -> next2 st' = next2 st ->
      (forall nm, plookup nm (memo2 st') = plookup nm (memo2 st)) -> Inv st -> Inv st' /\ ext 0 st st'.
    Proof.
      intros st st' Hh Hn Hm I.
      assert (E : ext 0 st st').
      { constructor.
        - rewrite Hn. apply le_n.
        - intros. rewrite Hh. reflexivity.
        - intros q id _ H. rewrite Hm. exact H.
        - intros q id _ H H'. rewrite Hm in H'. rewrite H in H'. discriminate. }
      split; [|exact E]. constructor.
      - intros id ro H. rewrite Hh in H. rewrite Hn. eapply inv_heap; eassumption.
      - rewrite Hh, Hn. apply (inv_len _ I).
      - intros q id Hq H. rewrite Hm in H. destruct (inv_w _ I q id Hq H) as [L R]. split; [rewrite Hn; exact L|].
        eapply rep_ext; eassumption.
      - intros q1 q2 id H1 H2 X1 X2. rewrite Hm in X1, X2. eapply (inv_dist _ I); eassumption.
      - intros nm id Hq H. rewrite Hm in H. destruct (inv_n _ I nm id Hq H) as (L & N & R). split; [rewrite Hn; exact L|]. split.
        + eapply nonfield_ext; eassumption.
        + intros k Hk. eapply rep_ext; [exact E|exact L|]. apply R. exact Hk.
    Qed.

    Lemma addsame_step : forall k id st, plookup k (memo2 st) = Some id -> Inv st ->
      Inv (add_memo2 k id st) /\ ext 0 st (add_memo2 k id st).
    Proof.
      intros k id st Hk I. apply feq_step; try reflexivity; [|exact I].
      intro nm. cbn [add_memo2 memo2 plookup]. destruct (path_eqb nm k) eqn:E; [|reflexivity].
      apply path_eqb_eq in E. subst nm. symmetry. exact Hk.
    Qed.

    (* creating an object and registering it under its group path *)
    Lemma reg_step : forall st gp ro n (Q : key -> Prop),
      Inv st ->
      (wl gp = true -> plookup gp (memo2 st) = None /\ rkM (KF gp) < n /\ Q (KF gp)) ->
      (wl gp = false -> forall k, klookup k M = Some gp -> Q k) ->
      (forall k, Q k -> exists nd, klookup k (g_objs g) = Some nd /\ r_pl ro = n_pl nd /\ Forall2 (chrel st) (n_refs nd) (r_refs ro)) ->
      let st' := add_memo2 gp (next2 st) (fst (new_obj2 ro st)) in
      Inv st' /\ ext n st st' /\ plookup gp (memo2 st') = Some (next2 st) /\ (forall k, Q k -> repS st' k (next2 st)).
    Proof.
      intros st gp ro n Q I Hw Hn HQ st'.
      assert (Mg : forall nm, plookup nm (memo2 st') = if path_eqb nm gp then Some (next2 st) else plookup nm (memo2 st)) by reflexivity.
      assert (Hg : forall id, nlookup id (heap2 st') = if Nat.eqb id (next2 st) then Some ro else nlookup id (heap2 st)) by reflexivity.
      assert (Nx : next2 st' = S (next2 st)) by reflexivity.
      assert (E : ext n st st').
      { constructor.
        - rewrite Nx. lia.
        - intros id L. rewrite Hg. destruct (Nat.eqb id (next2 st)) eqn:X; [|reflexivity]. apply Nat.eqb_eq in X. lia.
        - intros q id Hq H. rewrite Mg. destruct (path_eqb q gp) eqn:X; [|exact H].
          apply path_eqb_eq in X. subst q. destruct (Hw Hq) as [H0 _]. rewrite H0 in H. discriminate.
        - intros q id Hq H H'. rewrite Mg in H'. destruct (path_eqb q gp) eqn:X.
          + apply path_eqb_eq in X. subst q. inversion H'; subst. split; [lia|]. apply (Hw Hq).
          + rewrite H in H'. discriminate. }
      assert (RQ : forall k, Q k -> repS st' k (next2 st)).
      { intros k Hk. destruct (HQ k Hk) as (nd & K & Hp & F). unfold repS.
        apply rep_intro with (nd := nd) (ro := ro); [exact K|rewrite Hg; rewrite Nat.eqb_refl; reflexivity|exact Hp|].
        eapply Forall2_impl_In; [|exact F]. intros ak ai _ _ C. pose proof (chrel_ext _ _ _ _ _ E C) as C'.
        destruct C as (_ & C2 & _). destruct C' as (C1 & _ & C3 & C4). split; [exact C1|]. split; [exact C2|]. split; assumption. }
      split; [|split; [exact E|split; [rewrite Mg; rewrite path_eqb_refl; reflexivity|exact RQ]]].
      constructor.
      - intros id ro' H. rewrite Hg in H. rewrite Nx. destruct (Nat.eqb id (next2 st)) eqn:X.
        + apply Nat.eqb_eq in X. lia.
        + apply (inv_heap _ I) in H. lia.
      - rewrite Nx. cbn. f_equal. apply (inv_len _ I).
      - intros q id Hq H. rewrite Mg in H. rewrite Nx. destruct (path_eqb q gp) eqn:X.
        + apply path_eqb_eq in X. subst q. inversion H; subst. split; [lia|]. apply RQ. apply (Hw Hq).
        + destruct (inv_w _ I q id Hq H) as [L R]. split; [lia|]. eapply rep_ext; eassumption.
      - intros q1 q2 id H1 H2 X1 X2. rewrite Mg in X1, X2.
        destruct (path_eqb q1 gp) eqn:Y1; destruct (path_eqb q2 gp) eqn:Y2.
        + apply path_eqb_eq in Y1. apply path_eqb_eq in Y2. congruence.
        + inversion X1; subst. destruct (inv_w _ I q2 _ H2 X2). lia.
        + inversion X2; subst. destruct (inv_w _ I q1 _ H1 X1). lia.
        + eapply (inv_dist _ I); eassumption.
      - intros nm id Hq H. rewrite Mg in H. rewrite Nx. destruct (path_eqb nm gp) eqn:X.
        + apply path_eqb_eq in X. subst nm. inversion H; subst. split; [lia|]. split.
          * intros q Wq H'. rewrite Mg in H'. destruct (path_eqb q gp) eqn:Y.
            -- apply path_eqb_eq in Y. subst q. rewrite Wq in Hq. discriminate.
            -- destruct (inv_w _ I q _ Wq H'). lia.
          * intros k Hk. apply RQ. apply Hn; assumption.
        + destruct (inv_n _ I nm id Hq H) as (L & N & R). split; [lia|]. split.
          * eapply nonfield_ext; eassumption.
          * intros k Hk. eapply rep_ext; [exact E|exact L|]. apply R. exact Hk.
    Qed.


    (* ---------------------------------------------------------------- read_o, unfolded once *)
    Section RGo.
      Variable ro : rstate2 -> path -> path -> h5o -> option (rstate2 * nat).
      Variable gp : path.
      Fixpoint rgo (st : rstate2) (its : list (string * h5item)) {struct its} : option (rstate2 * list (string * nat)) :=
        match its with
        | [] => Some (st, [])
        | (a, IName nm) :: rest =>
            match (match plookup nm (memo2 st) with
                   | Some id => Some (st, id)
                   | None => match find_o f nm with
                             | None => None
                             | Some (fnp', o') =>
                                 match ro st nm fnp' o' with
                                 | Some (st', id) => Some (add_memo2 nm id st', id)
                                 | None => None
                                 end
                             end
                   end) with
            | None => None
            | Some (st1, id) => match rgo st1 rest with
                                | Some (st2, ids) => Some (st2, (a, id) :: ids)
                                | None => None
                                end
            end
        | (a, ISub o') :: rest =>
            match ro st (gp ++ [a]) [a] o' with
            | None => None
            | Some (st1, id) =>
                match rgo (add_memo2 (gp ++ [a]) id st1) rest with
                | Some (st2, ids) => Some (st2, (a, id) :: ids)
                | None => None
                end
            end
        end.
    End RGo.

    Lemma read_o_S : forall n st gp fnp c fn s d items,
      read_o (S n) false f st gp fnp (H5o c fn s d items) =
      match rgo (read_o n false f) gp st items with
      | None => None
      | Some (st2, ids) =>
          match new_obj2 {| r_pl := payload_of c fn s d; r_refs := ids |} st2 with
          | (st3, id) => Some (add_memo2 gp id st3, id)
          end
      end.
    Proof. intros. reflexivity. Qed.

    Definition ro_ok (n : nat) (ro : rstate2 -> path -> path -> h5o -> option (rstate2 * nat)) : Prop :=
      forall st gp fnp o k0, img M o k0 -> rkM k0 < n -> at_o gp o ->
        (wl gp = true -> plookup gp (memo2 st) = None /\ k0 = KF gp) -> Inv st ->
        exists st' id, ro st gp fnp o = Some (st', id) /\ Inv st' /\ ext (S (rkM k0)) st st' /\
          plookup gp (memo2 st') = Some id /\ (forall k, img M o k -> repS st' k id).

    Definition icond (n : nat) (gp : path) (it : string * h5item) : Prop :=
      match snd it with
      | IName nm => if wl nm then rkM (KF nm) < n
                    else exists k', wkey k' = None /\ klookup k' M = Some nm /\ rkM k' < n
      | ISub o' => wl (gp ++ [fst it]) = false /\ at_o (gp ++ [fst it]) o' /\ exists k', img M o' k' /\ rkM k' < n
      end.

    Definition irel (st : rstate2) (it : string * h5item) (ai : string * nat) : Prop :=
      fst it = fst ai /\ snd ai < next2 st /\
      match snd it with
      | IName nm => if wl nm then plookup nm (memo2 st) = Some (snd ai)
                    else nonfield (memo2 st) (snd ai) /\ forall k, klookup k M = Some nm -> repS st k (snd ai)
      | ISub o' => nonfield (memo2 st) (snd ai) /\ forall k, img M o' k -> repS st k (snd ai)
      end.

    Lemma irel_ext : forall n st st' it ai, ext n st st' -> irel st it ai -> irel st' it ai.
    Proof.
      intros n st st' [a it] [a' id] E (H1 & H2 & H3). cbn [fst snd] in *. pose proof (ext_next _ _ _ E).
      split; [exact H1|]. split; [cbn [snd]; lia|]. cbn [snd]. destruct it as [nm|o'].
      - destruct (wl nm) eqn:Wn.
        + eapply ext_stab; eassumption.
        + destruct H3 as [N R]. split; [eapply nonfield_ext; eassumption|]. intros k Hk. eapply rep_ext; [exact E|exact H2|]. apply R. exact Hk.
      - destruct H3 as [N R]. split; [eapply nonfield_ext; eassumption|]. intros k Hk. eapply rep_ext; [exact E|exact H2|]. apply R. exact Hk.
    Qed.

    Lemma rgo_ok : forall n ro gp, ro_ok n ro ->
      forall its st, Inv st -> (forall it, In it its -> icond n gp it) ->
      exists st' ids, rgo ro gp st its = Some (st', ids) /\ Inv st' /\ ext n st st' /\ Forall2 (irel st') its ids.
    Proof.
      intros n ro gp Hro. induction its as [|[a it] its IH]; intros st I Hc.
      - exists st, []. split; [reflexivity|]. split; [exact I|]. split; [apply ext_refl|constructor].
      - assert (Hc' : forall it, In it its -> icond n gp it) by (intros; apply Hc; right; assumption).
        pose proof (Hc _ (or_introl eq_refl)) as C. unfold icond in C. cbn [fst snd] in C.
        assert (X : exists st1 id, Inv st1 /\ ext n st st1 /\ irel st1 (a, it) (a, id) /\
                    forall rest, rgo ro gp st ((a, it) :: rest) =
                                 match rgo ro gp st1 rest with Some (st2, ids) => Some (st2, (a, id) :: ids) | None => None end).
        { destruct it as [nm|o'].
          - destruct (plookup nm (memo2 st)) as [id|] eqn:Pm.
            + exists st, id. split; [exact I|]. split; [apply ext_refl|]. split; [|intro rest; cbn [rgo]; rewrite Pm; reflexivity].
              split; [reflexivity|]. cbn [fst snd]. destruct (wl nm) eqn:Wn.
              * destruct (inv_w _ I nm id Wn Pm) as [L _]. split; [exact L|exact Pm].
              * destruct (inv_n _ I nm id Wn Pm) as (L & N & R). split; [exact L|]. split; assumption.
            + assert (Y : exists o' k0, at_o nm o' /\ img M o' k0 /\ rkM k0 < n /\ (wl nm = true -> k0 = KF nm)).
              { destruct (wl nm) eqn:Wn.
                - destruct (at_field nm Wn) as (o' & A & Im). exists o', (KF nm). auto.
                - destruct C as (k' & Wk & Kk & Lk). destruct (M_priv k' nm Wk Kk) as (_ & o' & A & Im).
                  exists o', k'. split; [exact A|]. split; [exact Im|]. split; [exact Lk|discriminate]. }
              destruct Y as (o' & k0 & A & Im & Lk & Hk0). destruct (at_find _ _ A) as [fnp' Fo].
              destruct (Hro st nm fnp' o' k0 Im Lk A (fun Wn => conj Pm (Hk0 Wn)) I) as (st1 & id & R1 & I1 & E1 & P1 & U1).
              destruct (addsame_step nm id st1 P1 I1) as [I2 E2].
              exists (add_memo2 nm id st1), id. split; [exact I2|]. split.
              { eapply ext_trans; [eapply ext_mono; [|exact E1]; lia|eapply ext_mono; [|exact E2]; lia]. }
              split; [|intro rest; cbn [rgo]; rewrite Pm, Fo, R1; reflexivity].
              assert (P2 : plookup nm (memo2 (add_memo2 nm id st1)) = Some id) by (cbn; rewrite path_eqb_refl; reflexivity).
              split; [reflexivity|]. cbn [fst snd]. destruct (wl nm) eqn:Wn.
              * destruct (inv_w _ I2 nm id Wn P2) as [L _]. split; [exact L|exact P2].
              * destruct (inv_n _ I2 nm id Wn P2) as (L & N & R). split; [exact L|]. split; assumption.
          - destruct C as (Wn & A & k0 & Im & Lk).
            destruct (Hro st (gp ++ [a]) [a] o' k0 Im Lk A (fun X => ltac:(rewrite Wn in X; discriminate)) I)
              as (st1 & id & R1 & I1 & E1 & P1 & U1).
            destruct (addsame_step (gp ++ [a]) id st1 P1 I1) as [I2 E2].
            exists (add_memo2 (gp ++ [a]) id st1), id. split; [exact I2|]. split.
            { eapply ext_trans; [eapply ext_mono; [|exact E1]; lia|eapply ext_mono; [|exact E2]; lia]. }
            split; [|intro rest; cbn [rgo]; rewrite R1; reflexivity].
            assert (P2 : plookup (gp ++ [a]) (memo2 (add_memo2 (gp ++ [a]) id st1)) = Some id) by (cbn; rewrite path_eqb_refl; reflexivity).
            destruct (inv_n _ I2 _ id Wn P2) as (L & N & R).
            split; [reflexivity|]. cbn [fst snd]. split; [exact L|]. split; [exact N|].
            intros k Hk. eapply rep_ext; [exact E2| |apply U1; exact Hk].
            destruct (inv_n _ I1 _ id Wn P1) as (L1 & _). exact L1. }
        destruct X as (st1 & id & I1 & E1 & R1 & Eq). rewrite Eq.
        destruct (IH st1 I1 Hc') as (st' & ids & R & I' & E' & F). rewrite R.
        exists st', ((a, id) :: ids). split; [reflexivity|]. split; [exact I'|]. split; [eapply ext_trans; eassumption|].
        constructor; [|exact F]. eapply irel_ext; eassumption.
    Qed.

    Lemma lookup_nodup : forall {A} (l : list (string * A)) a v, nodup_str (map fst l) = true -> In (a, v) l -> lookup a l = Some v.
    Proof.
      intros A l a v. induction l as [|[a' x] l IH]; cbn; [intros _ []|].
      intros H Hin. apply andb_true_iff in H. destruct H as [Hn Hd]. destruct Hin as [Hin|Hin].
      - inversion Hin; subst. rewrite String.eqb_refl. reflexivity.
      - destruct (String.eqb a a') eqn:E; [|apply IH; assumption].
        exfalso. apply String.eqb_eq in E. subst a'. apply negb_true_iff in Hn.
        assert (X : existsb (String.eqb a) (map fst l) = true).
        { apply existsb_exists. exists a. split; [|apply String.eqb_refl]. apply in_map_iff. exists (a, v). auto. }
        rewrite X in Hn. discriminate.
    Qed.

    Lemma Forall2_comp : forall {X Y Z} (R : X -> Y -> Prop) (S : Y -> Z -> Prop) (T : X -> Z -> Prop) xs ys zs,
      Forall2 R xs ys -> Forall2 S ys zs -> (forall x y z, R x y -> S y z -> T x z) -> Forall2 T xs zs.
    Proof.
      intros X Y Z R S T xs ys zs F. revert zs. induction F as [|x y xs ys Hxy F IHF]; intros zs G HT; inversion G; subst; constructor.
      - eapply HT; eassumption.
      - apply IHF; assumption.
    Qed.

    Lemma read_o_ok : forall n, ro_ok n (read_o n false f).
    Proof.
      induction n as [|n IHn]; intros st gp fnp o k0 Im Lk A Hw I; [lia|].
      destruct o as [c fn s d items]. rewrite read_o_S.
      pose proof Im as Im0. apply img_eq in Im0. destruct Im0 as (nd0 & K0 & P0 & F0).
      assert (Hin0 : In (k0, nd0) (g_objs g)) by (apply klookup_in; exact K0).
      assert (IHn' : ro_ok (rkM k0) (read_o n false f)).
      { intros st1 gp1 fnp1 o1 k1 Im1 Lk1. apply IHn; [exact Im1|lia]. }
      assert (Hfst : map fst (n_refs nd0) = map fst items).
      { eapply Forall2_map_fst; [|exact F0]. intros x y H. exact (proj1 H). }
      assert (Hc : forall it, In it items -> icond (rkM k0) gp it).
      { intros [a it] Hit. destruct (Forall2_in_r _ _ _ _ F0 Hit) as ([a' k'] & Hak & [H1 H2]). cbn [fst snd] in *. subst a'.
        unfold icond. cbn [fst snd]. destruct it as [nm|o'].
        - destruct (wkey k') as [q|] eqn:Wk.
          + pose proof (M_wkey _ _ Wk) as X. rewrite H2 in X. inversion X; subst nm.
            destruct (wkey_some _ _ Wk) as [-> Wq]. rewrite Wq.
            eapply rkM_edge; [exact Hin0|exact Hak|]. rewrite (wkey_KF _ Wq). exact Logic.I.
          + destruct (M_priv k' nm Wk H2) as [Wn _]. rewrite Wn. exists k'. split; [exact Wk|]. split; [exact H2|].
            eapply rkM_edge; [exact Hin0|exact Hak|]. rewrite Wk. exists nm. exact H2.
        - destruct H2 as (Wk & Hnm & Im'). split; [eapply at_sub_not_wl; exact A|]. split.
          + eapply at_sub; [exact A|]. apply lookup_nodup; [|exact Hit]. rewrite <- Hfst. eapply (gwf_refs_nodup g W); exact Hin0.
          + exists k'. split; [exact Im'|]. eapply rkM_edge; [exact Hin0|exact Hak|]. rewrite Wk. exact Hnm. }
      destruct (rgo_ok (rkM k0) _ gp IHn' items st I Hc) as (st2 & ids & R2 & I2 & E2 & F2). rewrite R2.
      set (ro := {| r_pl := payload_of c fn s d; r_refs := ids |}).
      destruct (reg_step st2 gp ro (S (rkM k0)) (fun k => img M (H5o c fn s d items) k) I2) as (I3 & E3 & P3 & U3).
      - intro Wg. destruct (Hw Wg) as [Pm ->]. split; [|split; [lia|exact Im]].
        destruct (plookup gp (memo2 st2)) as [x|] eqn:X; [|reflexivity].
        destruct (ext_new _ _ _ E2 gp x Wg Pm X). lia.
      - intros Wg k Hk. destruct (wkey k) as [q|] eqn:Wk.
        + pose proof (M_wkey _ _ Wk) as X. rewrite Hk in X. inversion X; subst q. destruct (wkey_some _ _ Wk) as [_ Y].
          rewrite Y in Wg. discriminate.
        + destruct (M_priv k gp Wk Hk) as (_ & o'' & A'' & Im''). rewrite (at_fun _ _ _ A A''). exact Im''.
      - intros k Hk. apply img_eq in Hk. destruct Hk as (nd & K & P & F). exists nd. split; [exact K|]. split; [exact P|].
        cbn [r_refs ro]. eapply Forall2_comp; [exact F|exact F2|].
        intros [a k'] [a1 it] [a2 id'] [X1 X2] (Y1 & Y2 & Y3). cbn [fst snd] in *. subst a1 a2.
        split; [reflexivity|]. split; [exact Y2|]. cbn [fst snd]. destruct it as [nm|o'].
        + split.
          * intros q Wk. pose proof (M_wkey _ _ Wk) as X. rewrite X2 in X. inversion X; subst nm.
            destruct (wkey_some _ _ Wk) as [_ Wq]. rewrite Wq in Y3. exact Y3.
          * intro Wk. destruct (M_priv k' nm Wk X2) as [Wn _]. rewrite Wn in Y3. destruct Y3 as [N R]. split; [exact N|].
            apply R. exact X2.
        + destruct X2 as (Wk & _ & Im'). destruct Y3 as [N R]. split.
          * intros q Wq. rewrite Wk in Wq. discriminate.
          * intros _. split; [exact N|]. apply R. exact Im'.
      - cbn [new_obj2]. fold ro. eexists _, _. split; [reflexivity|]. split; [exact I3|]. split; [|split; [exact P3|exact U3]].
        eapply ext_trans; [eapply ext_mono; [|exact E2]; lia|exact E3].
    Qed.


    (* ---------------------------------------------------------------- the main loop *)
    Definition relE (st : rstate2) (pe : path * gentry) (pr : path * rentry2) : Prop :=
      fst pe = fst pr /\
      match snd pe with
      | GColl => snd pr = RColl2
      | GLeaf l => exists id, snd pr = RLeaf2 (gl_kind l) (gl_level l) (gl_unit l) (gl_mult l) id /\
                              plookup (fst pe) (memo2 st) = Some id /\ wl (fst pe) = true
      end.

    Lemma relE_ext : forall n st st' pe pr, ext n st st' -> relE st pe pr -> relE st' pe pr.
    Proof.
      intros n st st' [p e] [p' r] E [H1 H2]. split; [exact H1|]. cbn [fst snd] in *. destruct e as [l|]; [|exact H2].
      destruct H2 as (id & Hr & Hm & Hw). exists id. split; [exact Hr|]. split; [|exact Hw]. eapply ext_stab; eassumption.
    Qed.

    Definition NN : nat := S (gsz (f2_groups f)).

    Lemma read_fields2_ok : forall es gs, Forall2 (grel M) es gs ->
      (forall x, In x gs -> In x (f2_groups f)) ->
      (forall p l, In (p, GLeaf l) es -> wl p = true /\ (1 <= gl_level l <= 3)%Z) ->
      forall st, Inv st ->
      exists st' fl, read_fields2 false f st gs = Some (st', fl) /\ Inv st' /\ ext NN st st' /\ Forall2 (relE st') es fl.
    Proof.
      intros es gs F. induction F as [|[p e] [p' he] es gs Hxy F IH]; intros Hsub Hes st I.
      - exists st, []. split; [reflexivity|]. split; [exact I|]. split; [apply ext_refl|constructor].
      - assert (Hsub' : forall x, In x gs -> In x (f2_groups f)) by (intros; apply Hsub; right; assumption).
        assert (Hes' : forall p l, In (p, GLeaf l) es -> wl p = true /\ (1 <= gl_level l <= 3)%Z) by (intros; eapply Hes; right; eassumption).
        destruct Hxy as [H1 H2]. cbn [fst snd] in H1, H2. subst p'. destruct e as [l|].
        + destruct H2 as (o & -> & Im). destruct (Hes p l (or_introl eq_refl)) as [Wp Hlv].
          pose proof (Hsub _ (or_introl eq_refl)) as Hin.
          cbn [read_fields2]. cbn [g2_obj g2_unit g2_level g2_kind g2_mult gleaf_of].
          assert (X : exists st1 id,
                   match plookup p (memo2 st) with
                   | Some id => Some (st, id)
                   | None => read_o (S (size_f f)) false f st p p o
                   end = Some (st1, id) /\ Inv st1 /\ ext NN st st1 /\ plookup p (memo2 st1) = Some id).
          { destruct (plookup p (memo2 st)) as [id|] eqn:Pm.
            - exists st, id. split; [reflexivity|]. split; [exact I|]. split; [apply ext_refl|exact Pm].
            - assert (A : at_o p o).
              { exists p, (gleaf_of l o), []. split; [exact Hin|]. split; [symmetry; apply app_nil_r|reflexivity]. }
              pose proof (rkM_le (KF p)) as Lr.
              destruct (read_o_ok (S (size_f f)) st p p o (KF p) Im ltac:(unfold size_f; fold (gsz (f2_groups f)); lia) A
                          (fun _ => conj Pm eq_refl) I) as (st1 & id & R & I1 & E1 & P1 & _).
              exists st1, id. split; [exact R|]. split; [exact I1|]. split; [|exact P1].
              eapply ext_mono; [|exact E1]. unfold NN. lia. }
          destruct X as (st1 & id & R1 & I1 & E1 & P1). rewrite R1.
          set (st2 := match p with [top] => add_memo2 [top] id st1 | _ => st1 end).
          assert (X : Inv st2 /\ ext 0 st1 st2).
          { unfold st2. destruct p as [|top [|y p]]; try (split; [exact I1|apply ext_refl]).
            apply addsame_step; [exact P1|exact I1]. }
          destruct X as [I2 E2].
          rewrite read_unit_spec. rewrite (level_roundtrip _ Hlv).
          destruct (IH Hsub' Hes' st2 I2) as (st' & fl & R & I' & E' & F'). rewrite R.
          eexists st', (_ :: fl). split; [reflexivity|]. split; [exact I'|]. split.
          * eapply ext_trans; [exact E1|]. eapply ext_trans; [eapply ext_mono; [|exact E2]; lia|exact E'].
          * constructor; [|exact F']. split; [reflexivity|]. cbn [fst snd]. exists id. split; [reflexivity|]. split; [|exact Wp].
            eapply ext_stab; [exact E'|exact Wp|]. eapply ext_stab; [exact E2|exact Wp|exact P1].
        + subst he. cbn [read_fields2].
          destruct (IH Hsub' Hes' st I) as (st' & fl & R & I' & E' & F'). rewrite R.
          exists st', ((p, RColl2) :: fl). split; [reflexivity|]. split; [exact I'|]. split; [exact E'|].
          constructor; [|exact F']. split; reflexivity.
    Qed.

    Lemma Inv_st02 : Inv st02.
    Proof. constructor; cbn; intros; try discriminate. reflexivity. Qed.

    (* ---------------------------------------------------------------- the abstraction of the final state *)
    Section Abs.
      Variable st : rstate2.
      Variable fl : list (path * rentry2).
      Hypothesis I : Inv st.
      Hypothesis FE : Forall2 (relE st) (kfs (g_fields g)) fl.

      Lemma fl_leaf_inv : forall p k v u m id, In (p, RLeaf2 k v u m id) fl -> plookup p (memo2 st) = Some id /\ wl p = true.
      Proof.
        intros p k v u m id Hin. destruct (Forall2_in_r _ _ _ _ FE Hin) as ([p' e] & Hpe & [H1 H2]). cbn [fst snd] in *. subst p'.
        destruct e as [l|]; [|discriminate H2]. destruct H2 as (id' & Hr & Hm & Hw). inversion Hr; subst. auto.
      Qed.

      Lemma fl_of_field : forall q, wl q = true -> exists k v u m id, In (q, RLeaf2 k v u m id) fl /\ plookup q (memo2 st) = Some id.
      Proof.
        intros q Hq. destruct (wl_inv q Hq) as (l & Hin & E).
        assert (Hk : In (q, GLeaf l) (kfs (g_fields g))) by (apply filter_In; split; [exact Hin|exact E]).
        destruct (Forall2_in_l _ _ _ _ FE Hk) as ([p' r] & Hpr & [H1 H2]). cbn [fst snd] in *. subst p'.
        destruct H2 as (id & Hr & Hm & _). subst r. do 5 eexists. split; [exact Hpr|exact Hm].
      Qed.

      Lemma fid_field : forall q id, wl q = true -> plookup q (memo2 st) = Some id -> field_of_id2 fl id = Some q.
      Proof.
        intros q id Hq Hm. unfold field_of_id2.
        destruct (find (fun pe : path * rentry2 => match snd pe with RLeaf2 _ _ _ _ id' => Nat.eqb id id' | RColl2 => false end) fl)
          as [[p2 e2]|] eqn:Fd.
        - apply find_some in Fd. destruct Fd as [Hin2 Hp2]. cbn [snd] in Hp2. destruct e2 as [k v u m id2|]; [|discriminate].
          apply Nat.eqb_eq in Hp2. subst id2. destruct (fl_leaf_inv _ _ _ _ _ _ Hin2) as [M2 W2].
          f_equal. eapply (inv_dist _ I); eassumption.
        - exfalso. destruct (fl_of_field q Hq) as (k & v & u & m & id' & Hin' & M'). rewrite Hm in M'. inversion M'; subst id'.
          pose proof (find_none _ _ Fd _ Hin') as X. cbn [snd] in X. rewrite Nat.eqb_refl in X. discriminate.
      Qed.

      Lemma fid_non : forall id, nonfield (memo2 st) id -> field_of_id2 fl id = None.
      Proof.
        intros id Hn. unfold field_of_id2.
        destruct (find (fun pe : path * rentry2 => match snd pe with RLeaf2 _ _ _ _ id' => Nat.eqb id id' | RColl2 => false end) fl)
          as [[p2 e2]|] eqn:Fd; [|reflexivity].
        exfalso. apply find_some in Fd. destruct Fd as [Hin2 Hp2]. cbn [snd] in Hp2. destruct e2 as [k v u m id2|]; [|discriminate].
        apply Nat.eqb_eq in Hp2. subst id2. destruct (fl_leaf_inv _ _ _ _ _ _ Hin2) as [M2 W2]. exact (Hn _ W2 M2).
      Qed.

      Lemma abs_unfold : forall id k a u, repS st k id -> id < a -> rkT k < u ->
        abs_obj a (heap2 st) fl id = unfold u lvl g k.
      Proof.
        induction id as [id IH] using lt_wf_ind. intros k a u H La Lu. unfold repS in H.
        inversion H as [k0 id0 nd ro K Hh Hp F]; subst k0 id0.
        destruct a as [|a]; [lia|]. destruct u as [|u]; [lia|]. cbn [abs_obj unfold]. rewrite Hh, K. rewrite Hp. f_equal.
        symmetry. eapply Forall2_map_eq; [exact F|].
        intros [b k'] [b' id'] Hb _ (H1 & H2 & H3 & H4). cbn [fst snd] in *. subst b'.
        assert (Le : rkT k' < rkT k) by (eapply rkT_edge; [apply klookup_in; exact K|exact Hb]).
        destruct (wkey k') as [q|] eqn:Wk.
        - destruct (wkey_some _ _ Wk) as [-> Wq]. unfold wl in Wq. rewrite Wq.
          rewrite (fid_field q id' Wq (H3 q eq_refl)). reflexivity.
        - destruct (H4 eq_refl) as [N R]. rewrite (fid_non id' N).
          assert (X : abs_obj a (heap2 st) fl id' = unfold u lvl g k') by (apply IH; [exact H2|exact R|lia|lia]).
          rewrite X. destruct k' as [q|n]; [|reflexivity]. cbn in Wk. unfold wl in Wk.
          destruct (written_leaf lvl (g_fields g) q); [discriminate|reflexivity].
      Qed.
    End Abs.

  End File.


  (* ---------------------------------------------------------------- write2 in closed form *)
  Definition wfile2 (gs : list (path * h5entry2)) : h5file2 :=
    {| f2_fields := enc_of (gfields_dict lvl (g_fields g) []); f2_numobs := g_numobs g; f2_vars := enc_of (Dict (g_vars g));
       f2_version := g_version g; f2_groups := gs; f2_meta := map (fun kt => (fst kt, enc_of (snd kt))) (g_meta g) |}.

  Lemma write2_ok : exists M gs, write2 false g lvl = Some (wfile2 gs) /\
    Forall2 (grel M) (kfs (g_fields g)) gs /\ mle (init_memo2 lvl (g_fields g)) M /\
    (forall k nm, wkey k = None -> klookup k M = Some nm ->
       exists p l o r o'', In (p, HLeaf2 (gleaf_of l o)) gs /\ r <> [] /\ nm = p ++ r /\ descend o r = Some o'' /\ img M o'' k) /\
    cntp M + nleaf gs <= gsz gs.
  Proof.
    assert (Hi : minit (init_memo2 lvl (g_fields g))).
    { intros q Hq. rewrite init_wkey. apply wkey_KF. exact Hq. }
    destruct (write_fields2_ok (S (List.length (g_objs g))) ltac:(lia) (g_fields g) _ (fun p e H => H) Hi) as (M & gs & R & L & F & P3 & C).
    exists M, gs. split; [|split; [exact F|split; [exact L|split]]].
    - unfold write2. rewrite R. rewrite (write_meta_spec _ (gwf_meta g W)).
      destruct (enc_attr_spec (gfields_dict lvl (g_fields g) []) eq_refl) as [X _]. rewrite X.
      destruct (enc_attr_spec (Dict (g_vars g)) eq_refl) as [Y _]. rewrite Y. reflexivity.
    - intros k nm Wk K. apply P3; [|exact K]. rewrite init_wkey. exact Wk.
    - rewrite cntp_init in C. exact C.
  Qed.

  Definition tentry_of (pe : path * gentry) : path * tentry :=
    (fst pe, match snd pe with
             | GColl => TColl
             | GLeaf l => TLeaf (gl_kind l) (gl_level l) (gl_unit l) (gl_mult l) (unfold (S (List.length (g_objs g))) lvl g (KF (fst pe)))
             end).

  Lemma expected_fields : t_fields (expected lvl g) = map tentry_of (kfs (g_fields g)).
  Proof.
    unfold expected. cbn [t_fields]. generalize (g_fields g) as fs. induction fs as [|[p [l|]] fs IH]; [reflexivity| |].
    - unfold kfs. cbn [flat_map filter snd gkept]. fold (kfs fs). destruct (lvl <=? gl_level l)%Z.
      + cbn [app map]. f_equal. exact IH.
      + exact IH.
    - unfold kfs. cbn [flat_map filter snd gkept app map]. fold (kfs fs). f_equal. exact IH.
  Qed.

  (* the state after reading the written file *)
  Lemma read_state2_ok : exists M gs, write2 false g lvl = Some (wfile2 gs) /\
    cntp M + nleaf gs <= gsz gs /\
    exists st fl, read_fields2 false (wfile2 gs) st02 gs = Some (st, fl) /\ Inv M st /\
      Forall2 (relE st) (kfs (g_fields g)) fl.
  Proof.
    destruct write2_ok as (M & gs & Wr & HF & HM0 & HP3 & HC). exists M, gs. split; [exact Wr|]. split; [exact HC|].
    assert (Hes : forall p l, In (p, GLeaf l) (kfs (g_fields g)) -> wl p = true /\ (1 <= gl_level l <= 3)%Z).
    { intros p l H. apply filter_In in H. destruct H as [H E]. split; [eapply wl_in; eassumption|]. apply (gwf_leaf g W p l H). }
    destruct (read_fields2_ok M (wfile2 gs) HF HM0 HP3 HC _ _ HF (fun x H => H) Hes st02 (Inv_st02 M)) as (st & fl & R & I & _ & FE).
    exists st, fl. auto.
  Qed.

  Theorem graph_roundtrip_sec : exists f, write2 false g lvl = Some f /\ read2 false f = Some (expected lvl g).
  Proof.
    destruct read_state2_ok as (M & gs & Wr & HC & st & fl & R & I & FE).
    exists (wfile2 gs). split; [exact Wr|].
    unfold read2. cbn [f2_groups f2_meta f2_vars f2_numobs wfile2]. rewrite R.
    rewrite (read_meta_spec _ (gwf_meta g W)).
    destruct (enc_attr_spec (Dict (g_vars g)) eq_refl) as (_ & e & E & D). rewrite E. rewrite D.
    f_equal. unfold expected. fold (t_fields (expected lvl g)). f_equal.
    change (flat_map _ (g_fields g)) with (t_fields (expected lvl g)). rewrite expected_fields.
    symmetry. eapply Forall2_map_eq; [exact FE|].
    intros [p ge] [p' r] _ _ [H1 H2]. cbn [fst snd] in *. subst p'. unfold tentry_of. cbn [fst snd]. f_equal.
    destruct ge as [l|]; [|subst r; reflexivity].
    destruct H2 as (id & -> & Hm & Hw). f_equal.
    destruct (inv_w _ _ I p id Hw Hm) as [L Rp].
    symmetry. eapply (abs_unfold M (wfile2 gs) HC); [exact I|exact FE|exact Rp| |].
    - rewrite (inv_len _ _ I). lia.
    - pose proof (rkT_le (KF p)). lia.
  Qed.


  (* a reference to a written field is, after reading, a reference to THE object of that field *)
  Theorem graph_reference_identity_sec : forall f st fl,
    write2 false g lvl = Some f -> read_fields2 false f st02 (f2_groups f) = Some (st, fl) ->
    forall p nd a q, klookup (KF p) (g_objs g) = Some nd -> wl p = true -> In (a, KF q) (n_refs nd) -> wl q = true ->
    exists k v u m idp k' v' u' m' idq o,
      In (p, RLeaf2 k v u m idp) fl /\ In (q, RLeaf2 k' v' u' m' idq) fl /\
      nlookup idp (heap2 st) = Some o /\ In (a, idq) (r_refs o).
  Proof.
    intros f st fl Wr Rd p nd a q K Wp Ha Wq.
    destruct read_state2_ok as (M & gs & Wr' & HC & st' & fl' & R & I & FE).
    rewrite Wr' in Wr. inversion Wr; subst f. clear Wr. cbn [f2_groups wfile2] in Rd.
    rewrite R in Rd. inversion Rd; subst st' fl'. clear Rd.
    destruct (fl_of_field _ _ FE p Wp) as (k & v & u & m & idp & Hfp & Mp).
    destruct (fl_of_field _ _ FE q Wq) as (k' & v' & u' & m' & idq & Hfq & Mq).
    destruct (inv_w _ _ I p idp Wp Mp) as [_ Rp]. unfold repS in Rp.
    inversion Rp as [k0 id0 nd' ro K' Hh Hp F]; subst k0 id0. rewrite K in K'. inversion K'; subst nd'.
    destruct (Forall2_in_l _ _ _ _ F Ha) as ([a' id'] & Hi & (X1 & _ & X3 & _)). cbn [fst snd] in *. subst a'.
    rewrite (X3 q (wkey_KF q Wq)) in Mq. inversion Mq; subst id'.
    exists k, v, u, m, idp, k', v', u', m', idq, ro. auto.
  Qed.

  (* different written fields are read as different objects *)
  Theorem graph_field_ids_distinct_sec : forall f st fl,
    write2 false g lvl = Some f -> read_fields2 false f st02 (f2_groups f) = Some (st, fl) ->
    forall p1 k1 v1 u1 m1 id1 p2 k2 v2 u2 m2 id2,
    In (p1, RLeaf2 k1 v1 u1 m1 id1) fl -> In (p2, RLeaf2 k2 v2 u2 m2 id2) fl -> p1 <> p2 -> id1 <> id2.
  Proof.
    intros f st fl Wr Rd p1 k1 v1 u1 m1 id1 p2 k2 v2 u2 m2 id2 H1 H2 Ne Eq.
    destruct read_state2_ok as (M & gs & Wr' & HC & st' & fl' & R & I & FE).
    rewrite Wr' in Wr. inversion Wr; subst f. clear Wr. cbn [f2_groups wfile2] in Rd.
    rewrite R in Rd. inversion Rd; subst st' fl'. clear Rd.
    destruct (fl_leaf_inv _ _ FE _ _ _ _ _ _ H1) as [M1 W1]. destruct (fl_leaf_inv _ _ FE _ _ _ _ _ _ H2) as [M2 W2].
    subst id2. apply Ne. eapply (inv_dist _ _ I); eassumption.
  Qed.

End G.

(* ------------------------------------------------------------------ the round trip *)
Theorem graph_roundtrip_lemma : forall g lvl rank, gwf g = true -> granked rank g ->
  exists f, write2 false g lvl = Some f /\ read2 false f = Some (expected lvl g).
Proof. intros g lvl rank W Rk. exact (graph_roundtrip_sec g lvl rank W Rk). Qed.

Theorem graph_reference_identity_lemma : forall g lvl rank f st fl, gwf g = true -> granked rank g ->
  write2 false g lvl = Some f -> read_fields2 false f st02 (f2_groups f) = Some (st, fl) ->
  forall p nd a q, klookup (KF p) (g_objs g) = Some nd -> written_leaf lvl (g_fields g) p = true ->
    In (a, KF q) (n_refs nd) -> written_leaf lvl (g_fields g) q = true ->
  exists k v u m idp k' v' u' m' idq o,
    In (p, RLeaf2 k v u m idp) fl /\ In (q, RLeaf2 k' v' u' m' idq) fl /\
    nlookup idp (heap2 st) = Some o /\ In (a, idq) (r_refs o).
Proof. intros g lvl rank f st fl W Rk. exact (graph_reference_identity_sec g lvl rank W Rk f st fl). Qed.

Theorem graph_field_ids_distinct_lemma : forall g lvl rank f st fl, gwf g = true -> granked rank g ->
  write2 false g lvl = Some f -> read_fields2 false f st02 (f2_groups f) = Some (st, fl) ->
  forall p1 k1 v1 u1 m1 id1 p2 k2 v2 u2 m2 id2,
  In (p1, RLeaf2 k1 v1 u1 m1 id1) fl -> In (p2, RLeaf2 k2 v2 u2 m2 id2) fl -> p1 <> p2 -> id1 <> id2.
Proof. intros g lvl rank f st fl W Rk. exact (graph_field_ids_distinct_sec g lvl rank W Rk f st fl). Qed.

(* ------------------------------------------------------------------ non-vacuity *)
Local Open Scope string_scope.

Definition ex_pl (c : string) : payload := {| p_class := c; p_sattrs := []; p_main := None; p_extra := [] |}.
Definition ex_leaf (lv : Z) : gentry := GLeaf {| gl_kind := "position"; gl_level := lv; gl_unit := None; gl_mult := 1%Z |}.

(* [a] and [b] share the private object KP 0, which refers to the private KP 1; [a] refers to the field [c],
   which is below the write level 3 *)
Definition ex_g : gdataset :=
  {| g_fields := [(["a"], ex_leaf 3%Z); (["b"], ex_leaf 3%Z); (["c"], ex_leaf 1%Z)];
     g_objs := [(KF ["a"], {| n_pl := ex_pl "A"; n_final := true; n_refs := [("other", KP 0); ("ref", KF ["c"])] |});
                (KF ["b"], {| n_pl := ex_pl "B"; n_final := false; n_refs := [("other", KP 0)] |});
                (KF ["c"], {| n_pl := ex_pl "C"; n_final := false; n_refs := [] |});
                (KP 0, {| n_pl := ex_pl "P0"; n_final := true; n_refs := [("inner", KP 1)] |});
                (KP 1, {| n_pl := ex_pl "P1"; n_final := false; n_refs := [] |})];
     g_meta := []; g_vars := []; g_numobs := 0%Z; g_version := "1" |}.

Definition ex_rank (k : key) : nat :=
  match k with
  | KF (s :: _) => if String.eqb s "c" then 1%nat else 3%nat
  | KP O => 2%nat
  | _ => 1%nat
  end.

Example ex_gwf : gwf ex_g = true.
Proof. vm_compute. reflexivity. Qed.

Example ex_granked : granked ex_rank ex_g.
Proof.
  intros k nd a k' Hin Ha. cbn in Hin.
  repeat (destruct Hin as [Hin|Hin];
          [inversion Hin; subst; cbn in Ha; repeat (destruct Ha as [Ha|Ha]; [inversion Ha; subst; cbn; lia|]); contradiction|]).
  contradiction.
Qed.

Example ex_roundtrips : roundtrips2 false ex_g 3%Z = true.
Proof. vm_compute. reflexivity. Qed.

Example ex_roundtrip_thm : exists f, write2 false ex_g 3%Z = Some f /\ read2 false f = Some (expected 3%Z ex_g).
Proof. exact (graph_roundtrip_lemma ex_g 3%Z ex_rank ex_gwf ex_granked). Qed.

(* on-demand reads: [a] refers to the later field [b], whose reference to the shared private object is stored as the
   name of a sub group of [a] that has not been read yet (it is read on demand, and again by its owner) *)
Definition ex_g2 : gdataset :=
  {| g_fields := [(["a"], ex_leaf 3%Z); (["b"], ex_leaf 3%Z)];
     g_objs := [(KF ["a"], {| n_pl := ex_pl "A"; n_final := true; n_refs := [("peer", KF ["b"]); ("other", KP 0)] |});
                (KF ["b"], {| n_pl := ex_pl "B"; n_final := false; n_refs := [("other", KP 0)] |});
                (KP 0, {| n_pl := ex_pl "P0"; n_final := true; n_refs := [] |})];
     g_meta := []; g_vars := []; g_numobs := 0%Z; g_version := "1" |}.

Definition ex_rank2 (k : key) : nat :=
  match k with
  | KF (s :: _) => if String.eqb s "a" then 3%nat else 2%nat
  | _ => 1%nat
  end.

Example ex2_gwf : gwf ex_g2 = true.
Proof. vm_compute. reflexivity. Qed.

Example ex2_granked : granked ex_rank2 ex_g2.
Proof.
  intros k nd a k' Hin Ha. cbn in Hin.
  repeat (destruct Hin as [Hin|Hin];
          [inversion Hin; subst; cbn in Ha; repeat (destruct Ha as [Ha|Ha]; [inversion Ha; subst; cbn; lia|]); contradiction|]).
  contradiction.
Qed.

Example ex2_roundtrips : roundtrips2 false ex_g2 3%Z = true.
Proof. vm_compute. reflexivity. Qed.

Print Assumptions graph_roundtrip_lemma.
Print Assumptions graph_reference_identity_lemma.
Print Assumptions graph_field_ids_distinct_lemma.
