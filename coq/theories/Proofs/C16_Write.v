(* C16 - lemmas about Model/C16_Write.v *)
From Coq Require Import ZArith List Bool Lia.
From Verif Require Import Model.C16_Purity Proofs.C16_Purity Model.C16_Write.
Import ListNotations.
Open Scope Z_scope.

Local Arguments update : simpl never.
Local Arguments remove : simpl never.
Section WorldW.
  Variables parser file content args result token : Type.
  Variable run : parser -> content -> args -> list token -> option result -> result.
  Variable emits : parser -> content -> args -> list token -> list token.
  Variable mutate : result -> result.
  Variable file_eqb : file -> file -> bool.

  Notation world := (world parser file content args result token).
  Notation step := (step parser file content args result token run emits mutate).
  Notation spec_trace := (spec_trace parser file content args result token run).
  Notation binding_of := (binding_of parser file args result).
  Notation wexec := (wexec parser file content args result token run emits mutate file_eqb).
  Notation wtrace := (wtrace parser file content args result token run emits mutate file_eqb).
  Notation wspec_trace := (wspec_trace parser file content args result token run file_eqb).
  Notation bindings_after := (bindings_after parser file args).
  Notation set_fs := (set_fs parser file content args result token file_eqb).

  Definition inv (w : world) (b : list (Z * (parser * file * args))) : Prop :=
    forall i, option_map binding_of (lookup i (insts _ _ _ _ _ _ w)) = lookup i b.

  (* one step of the specification: its observation, the bindings afterwards, the file system untouched *)
  Lemma step_spec : forall (w : world) b o, inv w b ->
    snd (step all_off w o) = spec_trace (fs _ _ _ _ _ _ w) [o] b /\
    inv (fst (step all_off w o)) (bindings_after o b) /\
    fs _ _ _ _ _ _ (fst (step all_off w o)) = fs _ _ _ _ _ _ w.
  Proof.
    intros w b o Hinv. destruct o as [j p f a|j|j|j]; cbn.
    - repeat split. intros i. cbn. destruct (Z.eq_dec i j) as [->|Hne].
      + rewrite !lookup_update_eq. reflexivity.
      + rewrite !lookup_update_neq by assumption. apply Hinv.
    - pose proof (Hinv j) as Hj.
      destruct (lookup j (insts _ _ _ _ _ _ w)) as [n|] eqn:L; cbn in Hj.
      + rewrite <- Hj. destruct n as [p f a st]. cbn. repeat split.
        intros i. cbn. destruct (Z.eq_dec i j) as [->|Hne].
        * rewrite lookup_update_eq. cbn. rewrite <- Hj. reflexivity.
        * rewrite lookup_update_neq by assumption. apply Hinv.
      + rewrite <- Hj. cbn. repeat split. exact Hinv.
    - repeat split. exact Hinv.
    - repeat split. intros i. cbn. destruct (Z.eq_dec i j) as [->|Hne].
      + rewrite !lookup_remove_eq. reflexivity.
      + rewrite !lookup_remove_neq by assumption. apply Hinv.
  Qed.

  (* THE statement with Write: whatever was parsed, mutated, dropped or written before, a Parse observes parse_fn of the
     content that is at the path at that moment *)
  Lemma wtrace_spec_gen : forall ops (w : world) b, inv w b ->
    wtrace all_off w ops = wspec_trace (fs _ _ _ _ _ _ w) ops b.
  Proof.
    unfold C16_Write.wtrace.
    induction ops as [|o r IH]; intros w b Hinv; [reflexivity|].
    destruct o as [o|f c]; cbn.
    - destruct (step_spec w b o Hinv) as (Ho & Hi & Hf).
      destruct (step all_off w o) as [w1 t1]. cbn in Ho, Hi, Hf.
      specialize (IH w1 (bindings_after o b) Hi). destruct (wexec all_off w1 r) as [w2 t2]. cbn in *.
      rewrite Ho, IH, Hf. reflexivity.
    - apply (IH (set_fs w f c) b). exact Hinv.
  Qed.

  Lemma wtrace_spec : forall fs0 ops,
    wtrace all_off (empty_world parser file content args result token fs0) ops = wspec_trace fs0 ops [].
  Proof.
    intros. apply (wtrace_spec_gen ops (empty_world parser file content args result token fs0) []). intros i. reflexivity.
  Qed.

  (* without any Write the extension is the model of C16_Purity *)
  Lemma wexec_plain : forall q ops (w : world),
    wexec q w (map (fun o => WOp o) ops) = exec parser file content args result token run emits mutate q w ops.
  Proof.
    induction ops as [|o r IH]; intros w; [reflexivity|]. cbn.
    destruct (step q w o) as [w1 t1]. rewrite IH. reflexivity.
  Qed.
End WorldW.

(* a stale memo on the path (quirk c16_stale_path_memo): run ignores the content after the first look *)
Definition wit_ops : list (@wop unit Z Z unit) :=
  [WOp (Construct 0 tt 1 tt); WOp (Parse 0); WWrite 1 30; WOp (Construct 1 tt 1 tt); WOp (Parse 1)].
Lemma write_witness :
  map o_result (wtrace unit Z Z unit Z Z (fun _ c _ _ _ => c * 2) (fun _ _ _ v => v) (fun r => r) Z.eqb all_off
                       (empty_world unit Z Z unit Z Z (fun _ => 20)) wit_ops) = [40; 60].
Proof. vm_compute. reflexivity. Qed.
