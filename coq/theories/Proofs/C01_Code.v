(* C01 - the code of the constant / affine hops, translated from the source by the fail-closed ast pass of the driver
   (Gen/C01_Hops.v), against the Spec constants and the model's hops. *)
From Coq Require Import ZArith QArith Qabs Bool List String Lia Lqa.
From Verif Require Import Lib.Dyadic Gen.C01_TaiUtc Gen.C01_Const Gen.C01_Graph Gen.C01_Hops Spec.C01_IersTaiUtc
     Model.C01_Scales Proofs.C01_Scales.
Import ListNotations.
Open Scope string_scope.
(* ================================================================== the code of the constant / affine hops (ast pass) *)
Open Scope Q_scope.

(* what each translated delta_* returns, against the property's constants *)
Lemma code_constants_lemma : forall j1 j2,
  code_delta_gps_tai "gps" j1 j2 * day_s == tai_minus_gps_s /\
  code_delta_gps_tai "tai" j1 j2 * day_s == - tai_minus_gps_s /\
  code_delta_tai_tt "tai" j1 j2 * day_s == tt_minus_tai_s /\
  code_delta_tai_tt "tt" j1 j2 * day_s == - tt_minus_tai_s /\
  code_delta_tcg_tt "tt" j1 j2 == L_G_iers2010 / (1 - L_G_iers2010) * (j1 + j2 - T_0_iers2010) /\
  code_delta_tcg_tt "tcg" j1 j2 == - (L_G_iers2010 * (j1 + j2 - T_0_iers2010)).
Proof.
  intros j1 j2.
  destruct constants_ok as (EL & ET & _).
  assert (NL : ~ 1 - L_G_iers2010 == 0) by (rewrite <- EL; exact LG_ne).
  unfold code_delta_gps_tai, code_delta_tai_tt, code_delta_tcg_tt. cbn [String.eqb Ascii.eqb Bool.eqb].
  unfold tai_minus_gps_s, tt_minus_tai_s, day_s.
  split; [field|]. split; [field|]. split; [field|]. split; [field|].
  rewrite <- EL, <- ET. unfold L_G, T0.
  split; [field; exact LG_ne|ring].
Qed.

(* every registered edge: either its converter adds delta_tai_utc (table hop), or what its converter adds to jd2 is
   exactly what the model's hop adds to the Julian date *)
Definition hop_matches (e : string * string) : Prop :=
  In e code_table_hops \/
  exists d f, code_hop (fst e) (snd e) = Some d /\ hop_fn e = Some f /\
              forall j1 j2, f (j1 + j2) == j1 + (j2 + d j1 j2).

Lemma code_hops_lemma : hops_translated = true /\ Forall hop_matches edges.
Proof.
  split; [reflexivity|].
  unfold edges.
  repeat (apply Forall_cons; [|]); try apply Forall_nil;
    first [ (left; cbn; tauto)
          | (right; eexists; eexists; split; [reflexivity|split; [reflexivity|]];
             intros j1 j2;
             unfold code_delta_gps_tai, code_delta_tai_tt, code_delta_tcg_tt; cbn [String.eqb Ascii.eqb Bool.eqb];
             unfold gps2tai, tai2gps, tai2tt, tt2tai, tt2tcg, tcg2tt, tt2tcg_L, tcg2tt_L, c_gps, c_tt, day, L_G, T0;
             first [ring | (field; exact LG_ne)]) ].
Qed.

