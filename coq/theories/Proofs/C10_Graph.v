(* C10 (d) - computed witnesses for Model/C10_Graph.v *)
From Coq Require Import ZArith List Bool String Ascii.
From Verif Require Import Lib.Dyadic Model.C10_Attr Model.C10_File Model.C10_Graph.
Import ListNotations.
Open Scope Z_scope.
Open Scope string_scope.

Definition gpl (x : Z) : payload :=
  {| p_class := "midgard.data.position.TrsPosition"; p_sattrs := [("system", "trs"); ("ellipsoid", "GRS80")];
     p_main := Some {| a_dtype := "float64"; a_shape := [1; 3]; a_vals := [SF (Dy x 0); SF (Dy 1 1); SF (Dy 3 0)] |};
     p_extra := [] |}.
Definition gnode (x : Z) (rs : list (string * key)) : node := {| n_pl := gpl x; n_final := true; n_refs := rs |}.
Definition gleafp (lv : Z) : gentry :=
  GLeaf {| gl_kind := "position"; gl_level := lv; gl_unit := Some ["meter"; "meter"; "meter"]; gl_mult := 1 |}.
Definition mkg (fs : list (path * gentry)) (os : list (key * node)) : gdataset :=
  {| g_fields := fs; g_objs := os; g_meta := []; g_vars := []; g_numobs := 1; g_version := "v" |}.

(* a and b hold different private objects under the same attribute, c shares a's *)
Definition w_shared : gdataset :=
  mkg [(["a"], gleafp 3); (["b"], gleafp 3); (["c"], gleafp 3)]
      [(KF ["a"], gnode 1 [("other", KP 0)]); (KF ["b"], gnode 3 [("other", KP 1)]); (KF ["c"], gnode 5 [("other", KP 0)]);
       (KP 0, gnode 7 []); (KP 1, gnode 9 [])].

(* with bare attribute names in the memos c.other comes back as b's private object; with group paths it is a's *)
Lemma bare_names_refuted :
  roundtrips2 false w_shared 1 = true /\ roundtrips2 true w_shared 1 = false.
Proof. split; vm_compute; reflexivity. Qed.

(* shared private object with a private object of its own, and a reference to a field that is omitted:
   a -other-> P0 -time-> P1,  b -other-> P0,  a -time-> field t (level 1), written at level 3 *)
Definition tpl : payload :=
  {| p_class := "midgard.data._time.UtcTime"; p_sattrs := [("scale", "utc"); ("fmt", "mjd")]; p_main := None;
     p_extra := [("jd1", {| a_dtype := "float64"; a_shape := [1]; a_vals := [SF (Dy 4915701 (-1))] |});
                 ("jd2", {| a_dtype := "float64"; a_shape := [1]; a_vals := [SF (DZero false)] |})] |}.
Definition w_rich : gdataset :=
  mkg [(["t"], GLeaf {| gl_kind := "time"; gl_level := 1; gl_unit := None; gl_mult := 1 |}); (["a"], gleafp 3); (["b"], gleafp 3)]
      [(KF ["t"], {| n_pl := tpl; n_final := false; n_refs := [] |});
       (KF ["a"], gnode 1 [("other", KP 0); ("time", KF ["t"])]); (KF ["b"], gnode 3 [("other", KP 0); ("time", KF ["t"])]);
       (KP 0, gnode 7 [("time", KP 1)]); (KP 1, {| n_pl := tpl; n_final := false; n_refs := [] |})].

Lemma rich_roundtrips :
  roundtrips2 false w_rich 3 = true /\ roundtrips2 false w_rich 1 = true /\
  map fst (t_fields (expected 3 w_rich)) = [["a"]; ["b"]].
Proof. repeat split; vm_compute; reflexivity. Qed.

(* an embedded group `other` holds an array `other`, so it cannot hold a sub group `other`: HDF5 refuses, write fails *)
Definition w_nested_same : gdataset :=
  mkg [(["a"], gleafp 3)] [(KF ["a"], gnode 1 [("other", KP 0)]); (KP 0, gnode 7 [("other", KP 1)]); (KP 1, gnode 9 [])].
Lemma nested_same_name_not_writable : write2 false w_nested_same 1 = None.
Proof. vm_compute. reflexivity. Qed.
