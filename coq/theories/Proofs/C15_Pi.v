(* C15 - the rational bracket of pi used by the grid oracle (Model/C15_Antex.v: pi_lo, pi_hi) *)
From Coq Require Import Reals QArith Qreals.
From Interval Require Import Tactic.
From Verif Require Import Model.C15_Antex.
Open Scope R_scope.
Lemma pi_bracket_lemma : Q2R pi_lo < PI < Q2R pi_hi.
Proof.
  unfold pi_lo, pi_hi, Q2R. cbn [Qnum Qden].
  split; interval with (i_prec 150).
Qed.
