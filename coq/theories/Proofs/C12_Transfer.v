(* Proofs/C12_Transfer.v - parsing with any table that has the same (name, start, stop) triples per line as the format's
   layout, in any order, yields the same association of names to values: the record/file theorems transfer to the
   regenerated tables. *)
From Coq Require Import Ascii String List Bool Arith ZArith QArith Lia Permutation.
From Verif Require Import Lib.Text Lib.Dyadic Lib.C12_ExpFormat Model.C12_Nav Gen.C12_Tables Proofs.C12_Nav.
Import ListNotations.
Local Open Scope nat_scope.
Local Open Scope list_scope.

(* ------------------------------------------------------------------------------ association lists *)
Lemma mem_In s l : mem s l = true <-> In s l.
Proof.
  unfold mem. rewrite existsb_exists. split.
  - intros [x [Hx E]]. apply String.eqb_eq in E. subst. exact Hx.
  - intros H. exists s. split; [exact H|apply String.eqb_refl].
Qed.

Lemma nodupb_NoDup l : nodupb l = true -> NoDup l.
Proof.
  induction l as [|x r IH]; intros H; [constructor|].
  cbn [nodupb] in H. apply andb_prop in H. destruct H as [H1 H2]. constructor.
  - intros C. apply mem_In in C. rewrite C in H1. discriminate.
  - apply IH. exact H2.
Qed.

Lemma alookup_In {A} n (l : list (string * A)) v : alookup n l = Some v -> In (n, v) l.
Proof.
  induction l as [|[k w] r IH]; [discriminate|]. cbn [alookup].
  destruct (String.eqb_spec k n); intros H.
  - injection H as H. subst. left. reflexivity.
  - right. apply IH. exact H.
Qed.

Lemma alookup_unique {A} n (l : list (string * A)) v :
  NoDup (map fst l) -> In (n, v) l -> alookup n l = Some v.
Proof.
  induction l as [|[k w] r IH]; intros Hnd Hin; [destruct Hin|].
  cbn [map fst] in Hnd. inversion Hnd as [|? ? Hk Hr]; subst. cbn [alookup].
  destruct Hin as [E|Hin].
  - injection E as E1 E2. subst. rewrite String.eqb_refl. reflexivity.
  - destruct (String.eqb_spec k n).
    + subst. exfalso. apply Hk. apply (in_map fst) in Hin. exact Hin.
    + apply IH; assumption.
Qed.

Lemma alookup_none {A} n (l : list (string * A)) : alookup n l = None -> ~ In n (map fst l).
Proof.
  induction l as [|[k w] r IH]; intros H C; [destruct C|].
  cbn [alookup] in H. destruct (String.eqb_spec k n); [discriminate|].
  destruct C as [C|C]; [cbn in C; congruence|]. exact (IH H C).
Qed.

Lemma alookup_perm {A} (l l' : list (string * A)) n :
  NoDup (map fst l) -> Permutation l l' -> alookup n l = alookup n l'.
Proof.
  intros Hnd Hp.
  assert (Hnd' : NoDup (map fst l')) by (eapply Permutation_NoDup; [apply Permutation_map; exact Hp|exact Hnd]).
  destruct (alookup n l) as [v|] eqn:E.
  - symmetry. apply alookup_unique; [exact Hnd'|]. eapply Permutation_in; [exact Hp|]. apply alookup_In. exact E.
  - destruct (alookup n l') as [v'|] eqn:E'; [|reflexivity].
    exfalso. apply (alookup_none _ _ E). apply alookup_In in E'.
    apply (Permutation_in _ (Permutation_sym Hp)) in E'. apply (in_map fst) in E'. exact E'.
Qed.

(* ------------------------------------------------------------------------------ tables *)
Lemma fielddef_eqb_eq a b : fielddef_eqb a b = true -> a = b.
Proof.
  destruct a as [n [x y]], b as [n' [x' y']]. unfold fielddef_eqb. cbn [fst snd]. intros H.
  apply andb_prop in H. destruct H as [H H3]. apply andb_prop in H. destruct H as [H1 H2].
  apply String.eqb_eq in H1. apply Nat.eqb_eq in H2. apply Nat.eqb_eq in H3. subst. reflexivity.
Qed.

Lemma fields_sub_incl a b : fields_sub a b = true -> incl a b.
Proof.
  unfold fields_sub. intros H x Hx. rewrite forallb_forall in H. specialize (H x Hx).
  apply existsb_exists in H. destruct H as [y [Hy E]]. apply fielddef_eqb_eq in E. subst. exact Hy.
Qed.

Lemma tlookup_In n t v : tlookup n t = Some v -> In (n, v) t.
Proof.
  induction t as [|[k w] r IH]; [discriminate|]. cbn [tlookup].
  destruct (Nat.eqb_spec k n); intros H.
  - injection H as H. subst. left. reflexivity.
  - right. apply IH. exact H.
Qed.

Definition orel {A} (R : A -> A -> Prop) (x y : option A) : Prop :=
  match x, y with Some a, Some b => R a b | None, None => True | _, _ => False end.

Lemma line_sub_lookup t u ln a :
  line_sub t u = true -> tlookup ln t = Some a ->
  exists b, tlookup ln u = Some b /\ fields_sub a b = true /\ fields_sub b a = true.
Proof.
  unfold line_sub. intros H E. rewrite forallb_forall in H. specialize (H _ (tlookup_In _ _ _ E)).
  cbn [fst snd] in H. destruct (tlookup ln u) as [b|]; [|discriminate].
  apply andb_prop in H. exists b. tauto.
Qed.

Lemma fields_perm (a b : list fielddef) :
  nodupb (map fst a) = true -> nodupb (map fst b) = true ->
  fields_sub a b = true -> fields_sub b a = true -> Permutation a b.
Proof.
  intros Na Nb Sab Sba. apply NoDup_Permutation.
  - apply (NoDup_map_inv fst). apply nodupb_NoDup. exact Na.
  - apply (NoDup_map_inv fst). apply nodupb_NoDup. exact Nb.
  - intros x. split; [apply fields_sub_incl; exact Sab|apply fields_sub_incl; exact Sba].
Qed.

Lemma table_ok_lookup v t ln :
  table_ok v t = true ->
  orel (fun a b => Permutation a b /\ NoDup (map fst a)) (tlookup ln (layout v)) (tlookup ln t).
Proof.
  unfold table_ok. intros H.
  apply andb_prop in H. destruct H as [H Nl]. apply andb_prop in H. destruct H as [He Nt].
  unfold table_equiv in He. apply andb_prop in He. destruct He as [He _]. apply andb_prop in He. destruct He as [Hlt Htl].
  rewrite forallb_forall in Nt, Nl.
  destruct (tlookup ln (layout v)) as [a|] eqn:Ea.
  - destruct (line_sub_lookup _ _ _ _ Hlt Ea) as [b [Eb [S1 S2]]]. rewrite Eb. cbn [orel].
    pose proof (Nl _ (tlookup_In _ _ _ Ea)) as Na. pose proof (Nt _ (tlookup_In _ _ _ Eb)) as Nb. cbn [snd] in Na, Nb.
    split; [apply fields_perm; assumption|apply nodupb_NoDup; exact Na].
  - destruct (tlookup ln t) as [b|] eqn:Eb; [|exact I].
    destruct (line_sub_lookup _ _ _ _ Htl Eb) as [a [Ea' _]]. congruence.
Qed.

(* ------------------------------------------------------------------------------ one line *)
Definition fok (ok : bool) (kv : string * string) : bool :=
  match nav_float ok (snd kv) with Some _ => true | None => false end.
Definition fval (ok : bool) (kv : string * string) : string * dec :=
  (fst kv, match nav_float ok (snd kv) with Some d => d | None => (0%Z, 0%Z) end).

Lemma floats_alt ok kv :
  floats ok kv = if forallb (fok ok) kv then Some (map (fval ok) kv) else None.
Proof.
  induction kv as [|[k v] r IH]; [reflexivity|].
  cbn [floats forallb map]. unfold fok at 1, fval at 1. cbn [fst snd]. rewrite IH.
  destruct (nav_float ok v); [|reflexivity]. cbn [andb].
  destruct (forallb (fok ok) r); reflexivity.
Qed.

Lemma forallb_perm {A} (f : A -> bool) l l' : Permutation l l' -> forallb f l = forallb f l'.
Proof.
  intros Hp. destruct (forallb f l) eqn:E; symmetry.
  - rewrite forallb_forall in *. intros x Hx. apply E. eapply Permutation_in; [apply Permutation_sym; exact Hp|exact Hx].
  - apply not_true_is_false. intros C. rewrite forallb_forall in C.
    assert (forallb f l = true); [|congruence].
    apply forallb_forall. intros x Hx. apply C. eapply Permutation_in; [exact Hp|exact Hx].
Qed.

Lemma floats_perm ok kv kv' :
  Permutation kv kv' -> orel (@Permutation _) (floats ok kv) (floats ok kv').
Proof.
  intros Hp. rewrite !floats_alt, (forallb_perm _ _ _ Hp).
  destruct (forallb (fok ok) kv'); cbn [orel]; [apply Permutation_map; exact Hp|exact I].
Qed.

(* ------------------------------------------------------------------------------ records *)
Definition prec_perm (p p' : prec) : Prop :=
  p_sys p = p_sys p' /\ p_sat p = p_sat p' /\ p_civil p = p_civil p' /\ p_sec p = p_sec p'
  /\ Permutation (p_vals p) (p_vals p').

Definition rres_rel (a b : rres) : Prop :=
  match a, b with
  | RSkip, RSkip => True
  | RErr, RErr => True
  | RRec p, RRec p' => prec_perm p p'
  | _, _ => False
  end.

Lemma obs_lines_rel ok t u :
  (forall ln, orel (fun a b => Permutation a b /\ NoDup (map fst a)) (tlookup ln t) (tlookup ln u)) ->
  forall ls ln p p', prec_perm p p' -> rres_rel (obs_lines ok t ln ls p) (obs_lines ok u ln ls p').
Proof.
  intros Ht. induction ls as [|l r IH]; intros ln p p' Hp; [exact Hp|].
  cbn [obs_lines]. specialize (Ht ln).
  destruct (tlookup ln t) as [a|], (tlookup ln u) as [b|]; cbn [orel] in Ht; try contradiction.
  - destruct Ht as [Hab _].
    pose proof (floats_perm ok _ _ (Permutation_map (cut (rstrip l)) Hab)) as F.
    destruct (floats ok (map (cut (rstrip l)) a)) as [kv|], (floats ok (map (cut (rstrip l)) b)) as [kv'|];
      cbn [orel] in F; try contradiction; [|exact I].
    apply IH. destruct Hp as [H1 [H2 [H3 [H4 H5]]]]. unfold prec_perm. cbn [p_sys p_sat p_civil p_sec p_vals].
    repeat split; try assumption. apply Permutation_app; assumption.
  - apply IH. exact Hp.
Qed.

Lemma parse_epoch_ext v q sys2 kv kv' :
  (forall n, alookup n kv = alookup n kv') -> parse_epoch v q sys2 kv = parse_epoch v q sys2 kv'.
Proof.
  intros H. unfold parse_epoch, parse_epoch3, parse_epoch2, epoch_fields, clock_floats.
  rewrite !H. reflexivity.
Qed.

Lemma prec_perm_refl p : prec_perm p p.
Proof. unfold prec_perm. repeat split; apply Permutation_refl. Qed.

Lemma map_fst_cut l fs : map fst (map (cut l) fs) = map fst fs.
Proof. rewrite map_map. apply map_ext. intros [n [a b]]. reflexivity. Qed.

Theorem parse_record_transfer v q sys2 t lines :
  table_ok v t = true ->
  rres_rel (parse_record v q sys2 (layout v) lines) (parse_record v q sys2 t lines).
Proof.
  intros Hok. unfold parse_record. destruct lines as [|l1 rest]; [exact I|].
  pose proof (table_ok_lookup v t 1 Hok) as H1.
  destruct (tlookup 1 (layout v)) as [a|], (tlookup 1 t) as [b|]; cbn [orel] in H1; try contradiction; [|exact I].
  destruct H1 as [Hab Hnd].
  assert (E : parse_epoch v q sys2 (map (cut (rstrip l1)) a) = parse_epoch v q sys2 (map (cut (rstrip l1)) b)).
  { apply parse_epoch_ext. intros n. apply alookup_perm.
    - rewrite map_fst_cut. exact Hnd.
    - apply Permutation_map. exact Hab. }
  rewrite <- E. destruct (parse_epoch v q sys2 (map (cut (rstrip l1)) a)) as [|p|]; try exact I.
  apply obs_lines_rel; [intros ln; apply table_ok_lookup; exact Hok|apply prec_perm_refl].
Qed.

Lemma collect_rel rs rs' :
  Forall2 rres_rel rs rs' -> orel (Forall2 prec_perm) (collect rs) (collect rs').
Proof.
  induction 1 as [|a b r r' Hab Hr IH]; [constructor|].
  destruct a, b; cbn [rres_rel] in Hab; try contradiction; cbn [collect].
  - exact IH.
  - destruct (collect r), (collect r'); cbn [orel] in IH |- *; try contradiction; [|exact I].
    constructor; assumption.
  - exact I.
Qed.

Theorem parse_body_transfer v q sys2 t ls :
  table_ok v t = true ->
  orel (Forall2 prec_perm) (parse_body v q sys2 (layout v) ls) (parse_body v q sys2 t ls).
Proof.
  intros Hok. unfold parse_body. apply collect_rel.
  induction (groups v ls) as [|g gs IH]; [constructor|].
  cbn [map]. constructor; [apply parse_record_transfer; exact Hok|exact IH].
Qed.

(* ------------------------------------------------------------------------------ the columns do not see the order *)
Definition prec_equiv (p p' : prec) : Prop :=
  p_sys p = p_sys p' /\ p_sat p = p_sat p' /\ p_civil p = p_civil p' /\ p_sec p = p_sec p'
  /\ forall n, alookup n (p_vals p) = alookup n (p_vals p').

Lemma perm_equiv p p' : NoDup (map fst (p_vals p)) -> prec_perm p p' -> prec_equiv p p'.
Proof.
  intros Hnd [H1 [H2 [H3 [H4 H5]]]]. unfold prec_equiv. repeat split; try assumption.
  intros n. apply alookup_perm; assumption.
Qed.

Lemma map_equiv {B} (f : prec -> B) ps ps' :
  (forall p p', prec_equiv p p' -> f p = f p') -> Forall2 prec_equiv ps ps' -> map f ps = map f ps'.
Proof.
  intros Hf. induction 1 as [|p p' r r' Hp Hr IH]; [reflexivity|].
  cbn [map]. rewrite (Hf _ _ Hp), IH. reflexivity.
Qed.

Lemma pval_equiv n p p' : prec_equiv p p' -> pval n p = pval n p'.
Proof. intros [_ [_ [_ [_ H]]]]. unfold pval. rewrite H. reflexivity. Qed.

Lemma week_val_equiv p p' : prec_equiv p p' -> week_val p = week_val p'.
Proof. intros H. unfold week_val. rewrite (pval_equiv _ _ _ H). destruct H as [H _]. rewrite H. reflexivity. Qed.

Lemma toc_abs_equiv ms p p' : prec_equiv p p' -> toc_abs ms p = toc_abs ms p'.
Proof. intros [H1 [_ [H3 [H4 _]]]]. unfold toc_abs. rewrite H1, H3, H4. reflexivity. Qed.

Lemma time_rows_equiv ms n ps ps' : Forall2 prec_equiv ps ps' -> time_rows ms n ps = time_rows ms n ps'.
Proof.
  intros H. unfold time_rows. apply map_equiv; [|exact H].
  intros p p' E. rewrite (toc_abs_equiv ms _ _ E), (week_val_equiv _ _ E), (pval_equiv n _ _ E).
  destruct E as [E _]. rewrite E. reflexivity.
Qed.

Theorem build_cols_equiv v q hdr sys2 ps ps' :
  Forall2 prec_equiv ps ps' -> build_cols v q hdr sys2 ps = build_cols v q hdr sys2 ps'.
Proof.
  intros H. unfold build_cols. f_equal.
  - f_equal; [|f_equal].
    + apply map_ext_in. intros n _. f_equal. apply map_equiv; [|exact H]. intros p p' E. apply pval_equiv. exact E.
    + f_equal. f_equal. apply map_equiv; [|exact H]. intros p p' E. f_equal. apply week_val_equiv. exact E.
    + destruct (is_v3 v).
      * unfold rename3. apply flat_map_ext. intros fm. apply map_ext. intros n. f_equal.
        apply map_equiv; [|exact H]. intros p p' E. rewrite (pval_equiv _ _ _ E). destruct E as [E _]. rewrite E. reflexivity.
      * unfold rename2. apply flat_map_ext. intros fm. destruct (alookup sys2 (snd fm)); [|reflexivity].
        f_equal. f_equal. apply map_equiv; [|exact H]. intros p p' E. apply pval_equiv. exact E.
  - rewrite !(time_rows_equiv _ _ _ _ H). f_equal. f_equal.
    apply map_equiv; [|exact H]. intros p p' E. apply toc_abs_equiv. exact E.
  - f_equal; [|f_equal]; f_equal; (apply map_equiv; [|exact H]); intros p p' [E1 [E2 _]]; assumption.
Qed.

(* ------------------------------------------------------------------------------ the regenerated tables *)
Lemma gen_tables_ok :
  table_ok V3 nav_table_rinex3_nav = true /\ table_ok V2 nav_table_rinex2_nav = true /\
  table_ok V212 nav_table_rinex212_nav = true.
Proof. vm_compute. auto. Qed.

Lemma map_fst_combine {A B} (a : list A) (b : list B) : length a = length b -> map fst (combine a b) = a.
Proof.
  revert b. induction a as [|x a IH]; intros [|y b] H; try discriminate; [reflexivity|].
  cbn [combine map fst]. rewrite IH; [reflexivity|]. cbn in H. lia.
Qed.

Lemma value_names_nodup : NoDup value_names.
Proof. apply nodupb_NoDup. vm_compute. reflexivity. Qed.

Lemma prec_of_nodup v sys2 r :
  nrec_wf v true r = true -> skipped r = false -> NoDup (map fst (p_vals (prec_of v sys2 r))).
Proof.
  intros H Hs. unfold nrec_wf in H. rewrite Hs in H.
  repeat match goal with H : (_ && _) = true |- _ => apply andb_prop in H; destruct H end.
  assert (L : length (r_nums r) = 29) by (apply Nat.eqb_eq; assumption).
  unfold prec_of. cbn [p_vals]. rewrite map_fst_combine; [apply value_names_nodup|].
  rewrite map_length, L. reflexivity.
Qed.

Lemma Forall2_perm_equiv ps ps' :
  Forall (fun p => NoDup (map fst (p_vals p))) ps -> Forall2 prec_perm ps ps' -> Forall2 prec_equiv ps ps'.
Proof.
  intros Hn H. induction H as [|p p' r r' Hp Hr IH]; [constructor|].
  inversion Hn; subst. constructor; [apply perm_equiv; assumption|apply IH; assumption].
Qed.

Lemma supported_not_skipped rs : Forall (fun r => skipped r = false) (supported_recs rs).
Proof.
  unfold supported_recs. apply Forall_forall. intros r H. apply filter_In in H. destruct H as [_ H].
  apply negb_true_iff in H. exact H.
Qed.

Theorem file_rt_gen_v3 rs sys2 :
  Forall (fun r => nrec_wf V3 true r = true) rs ->
  exists ps, parse_body V3 spec_q sys2 nav_table_rinex3_nav (render_body V3 rs) = Some ps
             /\ Forall2 prec_equiv (map (prec_of V3 sys2) (supported_recs rs)) ps.
Proof.
  intros H. pose proof (parse_body_transfer V3 spec_q sys2 _ (render_body V3 rs) (proj1 gen_tables_ok)) as T.
  rewrite (file_rt_v3 rs sys2 H) in T.
  destruct (parse_body V3 spec_q sys2 nav_table_rinex3_nav (render_body V3 rs)) as [ps|]; cbn [orel] in T; [|contradiction].
  exists ps. split; [reflexivity|]. apply Forall2_perm_equiv; [|exact T].
  apply Forall_forall. intros p Hp. apply in_map_iff in Hp. destruct Hp as [r [E Hr]]. subst p.
  pose proof (supported_wf _ rs H) as Hw. rewrite Forall_forall in Hw.
  pose proof (supported_not_skipped rs) as Hs. rewrite Forall_forall in Hs.
  apply prec_of_nodup; [apply Hw|apply Hs]; exact Hr.
Qed.

Lemma file_rt_gen_v2x v t rs c2 :
  (v = V2 \/ v = V212) -> table_ok v t = true ->
  Forall (fun r => nrec_wf v true r = true /\ skipped r = false) rs ->
  exists ps, parse_body v spec_q (String c2 "") t (render_body v rs) = Some ps
             /\ Forall2 prec_equiv (map (prec_of v (String c2 "")) rs) ps.
Proof.
  intros Hv Hok H. pose proof (parse_body_transfer v spec_q (String c2 "") t (render_body v rs) Hok) as T.
  assert (E : parse_body v spec_q (String c2 "") (layout v) (render_body v rs) = Some (map (prec_of v (String c2 "")) rs)).
  { destruct Hv; subst v; [apply file_rt_v2|apply file_rt_v212]; exact H. }
  rewrite E in T.
  destruct (parse_body v spec_q (String c2 "") t (render_body v rs)) as [ps|]; cbn [orel] in T; [|contradiction].
  exists ps. split; [reflexivity|]. apply Forall2_perm_equiv; [|exact T].
  apply Forall_forall. intros p Hp. apply in_map_iff in Hp. destruct Hp as [r [E' Hr]]. subst p.
  rewrite Forall_forall in H. destruct (H r Hr). apply prec_of_nodup; assumption.
Qed.

Theorem file_rt_gen_v2 rs c2 :
  Forall (fun r => nrec_wf V2 true r = true /\ skipped r = false) rs ->
  exists ps, parse_body V2 spec_q (String c2 "") nav_table_rinex2_nav (render_body V2 rs) = Some ps
             /\ Forall2 prec_equiv (map (prec_of V2 (String c2 "")) rs) ps.
Proof. apply file_rt_gen_v2x; [left; reflexivity|exact (proj1 (proj2 gen_tables_ok))]. Qed.

Theorem file_rt_gen_v212 rs c2 :
  Forall (fun r => nrec_wf V212 true r = true /\ skipped r = false) rs ->
  exists ps, parse_body V212 spec_q (String c2 "") nav_table_rinex212_nav (render_body V212 rs) = Some ps
             /\ Forall2 prec_equiv (map (prec_of V212 (String c2 "")) rs) ps.
Proof. apply file_rt_gen_v2x; [right; reflexivity|exact (proj2 (proj2 gen_tables_ok))]. Qed.
