(* C08 - the memo of TimeBase.to_scale: transparent when the key contains the format of the receiver. *)
From Coq Require Import ZArith List Bool Lia.
From Verif Require Import Lib.C08_Lru Model.C08_Cache Proofs.C08_Cache.
Import ListNotations.
Open Scope Z_scope.

Lemma arr_eqb_eq : forall a b : arr, arr_eqb a b = true -> a = b.
Proof.
  intros [d1 w1] [d2 w2] H. unfold arr_eqb in H. simpl in H. apply andb_true_iff in H. destruct H as [A B].
  apply zlist_eqb_eq in A. apply zlist_eqb_eq in B. subst. reflexivity.
Qed.

Lemma tkey_eqb_eq : forall a b, tkey_eqb false a b = true -> a = b.
Proof.
  intros [[[f1 t1] m1] j1] [[[f2 t2] m2] j2] H. unfold tkey_eqb in H. simpl in H.
  apply andb_true_iff in H. destruct H as [H J]. apply andb_true_iff in H. destruct H as [H M].
  apply andb_true_iff in H. destruct H as [F T].
  apply Z.eqb_eq in F. apply Z.eqb_eq in T. apply Z.eqb_eq in M. apply arr_eqb_eq in J. subst. reflexivity.
Qed.

Section T.
  Variable tf : Z -> Z -> arr -> option arr.

  Definition tconv (sc scale : Z) (jd : arr) : option arr := if sc =? scale then Some jd else tf sc scale jd.

  Definition tinv (l : list (option tkey * (Z * arr))) : Prop :=
    forall sc scale fmt jd v, In (Some (sc, scale, fmt, jd), v) l -> fst v = fmt /\ tconv sc scale jd = Some (snd v).

  Lemma tflood_in : forall n l k v, In (Some k, v) (tflood n l) -> In (Some k, v) l.
  Proof.
    induction n as [|n IH]; simpl; intros l k v H; [exact H|].
    apply IH in H. apply lru_insert_in in H. destruct H as [E|E]; [discriminate|exact E].
  Qed.

  Lemma tstep_sim : forall o w w1 x w1' x',
    tinv (snd w) ->
    tstep tf false w o = (w1, x) -> tstep tf false (twipe w) o = (w1', x') ->
    x = x' /\ fst w1 = fst w1' /\ tinv (snd w1).
  Proof.
    intros o w w1 x w1' x' I H H'. destruct o; simpl in H, H'.
    - inversion H; inversion H'; subst. simpl. auto.
    - destruct (assoc_z s (fst w)) as [[[sc fmt] jd]|]; [|inversion H; inversion H'; subst; auto].
      fold (tconv sc scale jd) in H, H'.
      destruct (lru_lookup (tokey_eqb false) (Some (sc, scale, fmt, jd)) (snd w)) as [[v l']|] eqn:L.
      + destruct (lru_lookup_spec _ _ _ _ _ _ _ L) as ((k' & E & Hin) & Sub & _).
        destruct k' as [k2|]; [|discriminate]. change (tkey_eqb false (sc, scale, fmt, jd) k2 = true) in E. apply tkey_eqb_eq in E. subst k2.
        destruct (I _ _ _ _ _ Hin) as [F C]. rewrite C in H'.
        inversion H; inversion H'; subst. simpl. split; [reflexivity|]. split; [reflexivity|].
        intros sc' scale' fmt' jd' v' Hv. apply (I sc' scale' fmt' jd' v'). apply Sub. exact Hv.
      + destruct (tconv sc scale jd) as [r|] eqn:C; inversion H; inversion H'; subst; simpl; auto.
        split; [reflexivity|]. split; [reflexivity|].
        intros sc' scale' fmt' jd' v' Hv. apply lru_insert_in in Hv. destruct Hv as [E|E].
        * inversion E; subst. simpl. auto.
        * apply (I sc' scale' fmt' jd' v' E).
    - inversion H; inversion H'; subst. simpl. split; [reflexivity|]. split; [reflexivity|].
      intros sc scale fmt jd v Hv. apply tflood_in in Hv. apply (I sc scale fmt jd v Hv).
  Qed.

  Lemma trun_sim : forall ops w w', fst w = fst w' -> tinv (snd w) ->
    trun tf false w ops = trun_uncached tf false w' ops.
  Proof.
    induction ops as [|o r IH]; intros w w' E I; simpl; [reflexivity|].
    assert (EW : twipe w' = twipe w) by (unfold twipe; rewrite E; reflexivity). rewrite EW.
    destruct (tstep tf false w o) as [w1 x] eqn:S1. destruct (tstep tf false (twipe w) o) as [w1' x'] eqn:S2.
    destruct (tstep_sim o w w1 x w1' x' I S1 S2) as (X & F & I1). subst x'. f_equal. apply IH; assumption.
  Qed.

  Lemma time_cache_invisible_lemma : forall ops, trun tf false ([], []) ops = trun_uncached tf false ([], []) ops.
  Proof. intros. apply trun_sim; [reflexivity|]. intros sc scale fmt jd v []. Qed.
End T.
