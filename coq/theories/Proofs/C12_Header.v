(* Proofs/C12_Header.v - header records of the RINEX navigation parsers *)
From Coq Require Import Ascii String List Bool Arith ZArith QArith Lia Permutation.
From Verif Require Import Lib.Text Lib.Dyadic Lib.Fixed Lib.C12_ExpFormat Model.C12_Nav Model.C12_Header Gen.C12_Tables
  Proofs.C12_Nav Proofs.C12_Transfer.
Import ListNotations.
Local Open Scope nat_scope.
Local Open Scope string_scope.

(* ------------------------------------------------------------------------------ tables *)
Lemma hdr_layouts_wf : hdr_layout_wf V3 = true /\ hdr_layout_wf V2 = true /\ hdr_layout_wf V212 = true.
Proof. vm_compute. auto. Qed.

Lemma hdr_gen_ok :
  htable_ok V3 hdr_table_rinex3_nav hdr_methods_rinex3_nav = true /\
  htable_ok V2 hdr_table_rinex2_nav hdr_methods_rinex2_nav = true /\
  htable_ok V212 hdr_table_rinex212_nav hdr_methods_rinex212_nav = true.
Proof. vm_compute. auto. Qed.

(* ------------------------------------------------------------------------------ text lemmas *)
Lemma drop_rstrip n l : strip (drop n (rstrip l)) = strip (drop n l).
Proof.
  destruct (rstrip_decomp l) as [w [Hw E]]. rewrite E at 2. rewrite drop_app.
  rewrite strip_app_space; [reflexivity|]. apply all_by_drop. exact Hw.
Qed.

Lemma drop_place w a c s : a + len c <= w -> w <= len s -> drop w (place a c s) = drop w s.
Proof.
  intros H1 H2. unfold place. rewrite drop_app, len_take, Nat.min_l by lia.
  rewrite (drop_all w (take a s)) by (rewrite len_take; lia). cbn [append].
  rewrite drop_app. rewrite (drop_all (w - a) c) by lia. cbn [append].
  rewrite drop_drop. f_equal. lia.
Qed.

Lemma drop_render bg w : forall specs cells pos,
  table_wf_from pos specs = true -> forallb (fun f => (fstop f <=? w)%nat) specs = true -> w <= len bg ->
  cells_ok specs cells -> drop w (render_cells bg specs cells) = drop w bg.
Proof.
  intros specs cells pos Hwf Hw Hbg Hc. revert pos Hwf Hw.
  induction Hc as [|f c fs cs Hfc Hc IH]; intros pos Hwf Hw; [reflexivity|].
  cbn [render_cells]. cbn [table_wf_from forallb] in Hwf, Hw.
  apply andb_prop in Hwf. destruct Hwf as [Hwf H3]. apply andb_prop in Hwf. destruct Hwf as [H1 H2].
  apply andb_prop in Hw. destruct Hw as [Hw1 Hw2].
  apply Nat.leb_le in H1. apply Nat.leb_le in H2. apply Nat.leb_le in Hw1.
  rewrite drop_place.
  - apply (IH _ H3 Hw2).
  - lia.
  - rewrite (len_render_cells bg (fstop f) w fs cs H3 Hw2 Hbg Hc). exact Hbg.
Qed.

Lemma cut_is_parse_record l fs : map (cut l) fs = Fixed.parse_record (specs_of fs) l.
Proof.
  unfold Fixed.parse_record, parse_record_by, specs_of. rewrite map_map. apply map_ext. intros [n [a b]]. reflexivity.
Qed.

Lemma rstrip_keep x s : s <> "" -> rtrimmed is_space s = true -> rstrip (x ++ s) = x ++ s.
Proof. intros Hne Hr. apply rstrip_by_rtrimmed. apply rtrimmed_app; assumption. Qed.

(* ------------------------------------------------------------------------------ one header line *)
Section Line.
  Variable v : version.
  Variable label : string.
  Variable fs : list fielddef.
  Hypothesis Hin : In (label, fs) (hdr_layout v).
  Hypothesis Hlook : alookup label (hdr_layout v) = Some fs.

  Lemma layout_entry_wf :
    table_wf 60 (specs_of fs) = true /\ trimmed label = true /\ String.eqb (take 13 label) "END OF HEADER" = false
    /\ label <> "".
  Proof.
    assert (W : hdr_layout_wf v = true) by (destruct v; apply hdr_layouts_wf).
    unfold hdr_layout_wf in W. apply andb_prop in W. destruct W as [W _]. rewrite forallb_forall in W.
    specialize (W _ Hin). cbn [fst snd] in W.
    apply andb_prop in W. destruct W as [W Hne]. apply andb_prop in W. destruct W as [W He].
    apply andb_prop in W. destruct W as [W Hl]. apply andb_prop in W. destruct W as [W Ht].
    split; [exact W|]. split; [exact Ht|]. split; [apply negb_true_iff; exact He|].
    intros E. subst label. discriminate.
  Qed.

  Variable bg : string.
  Variable cells : list (string * string).
  Hypothesis Hbg : len bg = 60.
  Hypothesis Hok : cells_okb (specs_of fs) cells = true.

  Let L := render_cells (bg ++ label) (specs_of fs) (map snd cells).

  Lemma cells_ok_of : forall specs cs, cells_okb specs cs = true ->
    cells_ok specs (map snd cs) /\
    map (fun fc => (fname (fst fc), strip (snd fc))) (combine specs (map snd cs)) = map (fun nc => (fst nc, strip (snd nc))) cs.
  Proof.
    unfold cells_okb, cells_ok. induction specs as [|f r IH]; intros [|[n c] cs] H; try discriminate.
    - split; [constructor|reflexivity].
    - apply andb_prop in H. destruct H as [Hl H]. cbn [combine forallb] in H. apply andb_prop in H. destruct H as [H1 H2].
      cbn [fst snd] in H1. apply andb_prop in H1. destruct H1 as [Hn Hw]. apply String.eqb_eq in Hn. apply Nat.eqb_eq in Hw.
      destruct (IH cs) as [A B]; [apply andb_true_intro; split; [exact Hl|exact H2]|].
      split; [constructor; [exact Hw|exact A]|]. cbn [map combine fst snd]. rewrite B, Hn. reflexivity.
  Qed.

  Lemma line_tail : drop 60 L = label.
  Proof.
    destruct layout_entry_wf as [W _]. unfold table_wf in W. apply andb_prop in W. destruct W as [W1 W2].
    unfold L. rewrite (drop_render (bg ++ label) 60 _ _ 0 W1 W2); [|rewrite len_app; lia|apply cells_ok_of; exact Hok].
    rewrite <- Hbg. apply drop_app_len.
  Qed.

  Lemma line_rstrip : rstrip L = L.
  Proof.
    destruct layout_entry_wf as [_ [T [_ Hne]]].
    rewrite <- (take_drop 60 L), line_tail. apply rstrip_keep; [exact Hne|].
    unfold trimmed, trimmed_by in T. apply andb_prop in T. tauto.
  Qed.

  Lemma hdr_fields_render :
    hdr_fields (hdr_layout v) L = Some (label, map (fun nc => (fst nc, strip (snd nc))) cells).
  Proof.
    destruct layout_entry_wf as [W [T _]].
    unfold hdr_fields. rewrite line_rstrip. unfold hdr_label. rewrite line_tail, (strip_trimmed _ T), Hlook.
    f_equal. f_equal. rewrite cut_is_parse_record. unfold L.
    destruct (cells_ok_of _ _ Hok) as [A B].
    rewrite (parse_render_cells (bg ++ label) 60 _ _ W); [exact B| |exact A].
    rewrite len_app. lia.
  Qed.

  Lemma line_not_end : is_end (rstrip L) = false.
  Proof.
    destruct layout_entry_wf as [_ [_ [E _]]].
    rewrite line_rstrip. unfold is_end. unfold slice. rewrite line_tail. exact E.
  Qed.
End Line.

Lemma alookup_In' {A} n (l : list (string * A)) x : alookup n l = Some x -> In (n, x) l.
Proof. apply alookup_In. Qed.

(* ------------------------------------------------------------------------------ the whole header *)
Lemma end_line_step ok v m : header_step ok v (hdr_layout v) (hdr_methods v) end_line m = Some m /\ is_end (rstrip end_line) = true.
Proof. destruct v; vm_compute; auto. Qed.

Theorem header_roundtrip ok v : forall hs m body,
  Forall (fun h => hline_ok v h = true) hs ->
  parse_header ok v (hdr_layout v) (hdr_methods v) (map (render_h v) hs ++ end_line :: body) m
  = match meta_of ok v hs m with Some m' => Some (m', body) | None => None end.
Proof.
  induction hs as [|h hs IH]; intros m body H.
  - cbn [map app meta_of parse_header]. destruct (end_line_step ok v m) as [E1 E2]. rewrite E1, E2. reflexivity.
  - inversion H as [|h' hs' Hh Hhs]; subst. cbn [map app parse_header meta_of].
    unfold hline_ok in Hh. unfold render_h. apply andb_prop in Hh. destruct Hh as [Hb Hh]. apply Nat.eqb_eq in Hb.
    destruct (alookup (h_label h) (hdr_layout v)) as [fs|] eqn:El; [|discriminate].
    pose proof (alookup_In _ _ _ El) as Hin.
    unfold header_step. rewrite (hdr_fields_render v _ fs Hin El (h_bg h) (h_cells h) Hb Hh). fold (h_vals h).
    destruct (alookup (h_label h) (hdr_methods v)) as [meth|]; [|reflexivity].
    destruct (apply_method ok v meth (h_vals h) m) as [m1|]; [|reflexivity].
    rewrite (line_not_end v _ fs Hin El (h_bg h) (h_cells h) Hb Hh). apply IH. exact Hhs.
Qed.

(* ------------------------------------------------------------------------------ regenerated header tables *)
(* with the regenerated table every header line yields the same label and the same association of names to texts *)
Theorem hdr_fields_transfer v t ps line :
  htable_ok v t ps = true ->
  match hdr_fields (hdr_layout v) line, hdr_fields t line with
  | Some (lab, kv), Some (lab', kv') => lab = lab' /\ (forall n, alookup n kv = alookup n kv')
                                        /\ alookup lab ps = alookup lab (hdr_methods v)
  | None, None => True
  | _, _ => False
  end.
Proof.
  unfold htable_ok. intros H.
  repeat (apply andb_prop in H; destruct H as [H ?]).
  rename H into Hlen, H4 into Nt, H3 into Hf, H2 into Hlp, H1 into Np, H0 into Hm.
  apply Nat.eqb_eq in Hlen. rewrite forallb_forall in Hf, Hm.
  unfold hdr_fields. set (lab := hdr_label (rstrip line)).
  destruct (alookup lab (hdr_layout v)) as [a|] eqn:Ea.
  - specialize (Hf _ (alookup_In _ _ _ Ea)). cbn [fst snd] in Hf.
    destruct (alookup lab t) as [b|]; [|discriminate Hf].
    repeat (apply andb_prop in Hf; destruct Hf as [Hf ?]).
    split; [reflexivity|]. split.
    + intros n. apply alookup_perm.
      * rewrite map_fst_cut. apply nodupb_NoDup. assumption.
      * apply Permutation_map. apply fields_perm; assumption.
    + (* methods *)
      destruct (alookup lab (hdr_methods v)) as [meth|] eqn:Em.
      * specialize (Hm _ (alookup_In _ _ _ Em)). cbn [fst snd] in Hm.
        destruct (alookup lab ps); [|discriminate Hm]. apply String.eqb_eq in Hm. subst. reflexivity.
      * (* a label of the layout always has a method *)
        exfalso. clearbody lab. clear - Ea Em. destruct v; cbn [hdr_layout hdr_methods is_v3 app alookup] in Ea, Em;
        repeat match type of Em with
               | (if String.eqb ?k lab then _ else _) = None => destruct (String.eqb k lab); [discriminate Em|]
               end; discriminate Ea.
  - (* lab is not a label of the layout: then not of t either (same number of distinct labels, all layout labels in t) *)
    destruct (alookup lab t) as [b|] eqn:Eb; [|exact I].
    exfalso.
    assert (Hincl : incl (map fst (hdr_layout v)) (map fst t)).
    { intros k Hk. apply in_map_iff in Hk. destruct Hk as [[k' fs] [E Hin]]. cbn in E. subst k'.
      specialize (Hf _ Hin). cbn [fst] in Hf. destruct (alookup k t) as [x|] eqn:Ex; [|discriminate Hf].
      apply alookup_In in Ex. apply (in_map fst) in Ex. exact Ex. }
    assert (Nl : NoDup (map fst (hdr_layout v))).
    { destruct v; apply nodupb_NoDup; vm_compute; reflexivity. }
    assert (Hincl' : incl (map fst t) (map fst (hdr_layout v))).
    { apply NoDup_length_incl; [exact Nl|rewrite !map_length; lia|exact Hincl]. }
    apply alookup_In in Eb. apply (in_map fst) in Eb. apply Hincl' in Eb. cbn [fst] in Eb.
    apply (alookup_none _ _ Ea). exact Eb.
Qed.

(* the numbers of the header: an ionospheric / time system parameter printed in any E/D style means its decimal value *)
Lemma header_number ok n : num_wf ok n = true -> nav_float ok (core n) = Some (num_dec n).
Proof. apply nav_float_core. Qed.

(* non-vacuity: a v3 header *)
Definition ex_header : list hline :=
  [ mkH "RINEX VERSION / TYPE" [("version", "     3.03           "); ("file_type", "N"); ("sat_sys", "M")]
        (spaces 21 ++ ": GNSS NAV DATA    " ++ spaces 1 ++ ": MIXED" ++ spaces 12);
    mkH "COMMENT" [("comment", ljust 60 "a comment")] (spaces 60);
    mkH "IONOSPHERIC CORR" [("gnss_id", "GPSA"); ("para_1", "   .8382D-08"); ("para_2", "  -.7451d-08"); ("para_3", " -5.9605E-08");
                            ("para_4", "  5.9605e-08"); ("time_mark", "W"); ("sv_id", "01")] (spaces 60);
    mkH "TIME SYSTEM CORR" [("corr_type", "GPUT"); ("a0", "-9.3132257462E-10"); ("a1", "-4.440892099E-15"); ("t", " 405504"); ("w", " 1886")]
        (spaces 60);
    mkH "LEAP SECONDS" [("leap_seconds", "    17"); ("future_past_leap_seconds", "    18"); ("week", "  1929"); ("week_day", "     7");
                        ("time_sys", "   ")] (spaces 60) ].
Lemma ex_header_ok : forallb (hline_ok V3) ex_header = true
  /\ match meta_of true V3 ex_header meta0 with Some m => Nat.eqb (length (m_iono m)) 1 && Nat.eqb (length (m_tsc m)) 1 | None => false end = true.
Proof. vm_compute. auto. Qed.
