(* Proofs/C13_Jdn.v - the Julian-day-number formula of Model/C13_Sp3.v (used for the as_dataset epochs) against the
   civil calendar of property C02 (Model/C02_Formats.days_from_civil / civil_from_days, whose round trips are the
   theorems civil_roundtrip / civil_roundtrip_valid of Props/C02.v).  C02's lemmas are imported, not copied. *)
From Coq Require Import ZArith QArith Bool List Lia.
From Verif Require Model.C13_Sp3 Proofs.C13_Sp3.
From Verif Require Import Model.C02_Formats Proofs.C02_Formats.
Open Scope Z_scope.

Notation jdn := Verif.Model.C13_Sp3.jdn.
Notation epoch_of_time := Verif.Model.C13_Sp3.epoch_of_time.
Notation all_off := Verif.Model.C13_Sp3.all_off.
Notation time_string := Verif.Proofs.C13_Sp3.time_string.

(* JDN (at noon) of 1970-01-01 *)
Definition JDN1970 : Z := 2440588.

Lemma jdn_day y m d : jdn y m d = jdn y m 1 + (d - 1).
Proof. unfold Verif.Model.C13_Sp3.jdn. lia. Qed.
Lemma dfc_day y m d : days_from_civil y m d = days_from_civil y m 1 + (d - 1).
Proof. unfold days_from_civil, doe_of. lia. Qed.

Lemma jdn_period y k m d : jdn (y + k * 400) m d = jdn y m d + k * 146097.
Proof.
  unfold Verif.Model.C13_Sp3.jdn. set (a := (14 - m) / 12).
  replace (y + k * 400 + 4800 - a) with (y + 4800 - a + k * 400) by ring.
  set (y' := y + 4800 - a).
  replace (y' + k * 400) with (y' + (k * 100) * 4) at 2 by ring.
  replace (y' + k * 400) with (y' + (k * 4) * 100) at 2 by ring.
  rewrite !Z.div_add by lia. ring.
Qed.

Definition chkJ (y m : Z) : bool := (jdn y m 1 =? days_from_civil y m 1 + JDN1970).
Lemma chkJ_all0 y m : 0 <= y < 400 -> 1 <= m <= 12 -> chkJ y m = true.
Proof.
  intros Hy Hm.
  assert (G : all_below 400 (fun y => all_below 12 (chkJ y) 1) 0 = true) by (vm_cast_no_check (eq_refl true)).
  pose proof (all_below_spec _ _ _ G y ltac:(lia)) as G1. cbv beta in G1.
  exact (all_below_spec _ _ _ G1 m ltac:(lia)).
Qed.

(* for EVERY year (no bound), month 1..12 and day: jdn = C02's day number + JDN of 1970-01-01 *)
Lemma jdn_civil y m d : 1 <= m <= 12 -> jdn y m d = days_from_civil y m d + JDN1970.
Proof.
  intros Hm. rewrite jdn_day, (dfc_day y m d).
  assert (E : y = y mod 400 + (y / 400) * 400) by (pose proof (Z.div_mod y 400); lia).
  rewrite E. rewrite jdn_period, dfc_period.
  pose proof (chkJ_all0 (y mod 400) m (Z.mod_pos_bound y 400 ltac:(lia)) Hm) as H.
  unfold chkJ in H. apply Z.eqb_eq in H. lia.
Qed.

(* hence jdn is inverted by C02's civil_from_days on valid dates, is injective there, and steps by one per day *)
Lemma jdn_inverse y m d : valid_date y m d = true -> civil_from_days (jdn y m d - JDN1970) = (y, m, d).
Proof.
  intros V. pose proof (valid_date_bounds y m d V) as [Hm _].
  rewrite jdn_civil by lia. replace (days_from_civil y m d + JDN1970 - JDN1970) with (days_from_civil y m d) by ring.
  apply civil_of_days_from. exact V.
Qed.
Lemma jdn_injective y m d y' m' d' :
  valid_date y m d = true -> valid_date y' m' d' = true -> jdn y m d = jdn y' m' d' -> (y, m, d) = (y', m', d').
Proof. intros V V' E. rewrite <- (jdn_inverse y m d V), <- (jdn_inverse y' m' d' V'), E. reflexivity. Qed.
Lemma jdn_of_day_number z : let '(y, m, d) := civil_from_days z in jdn y m d = z + JDN1970.
Proof.
  pose proof (civil_from_days_spec z) as H. destruct (civil_from_days z) as [[y m] d]. destruct H as [H V].
  pose proof (valid_date_bounds y m d V) as [Hm _]. rewrite jdn_civil by lia. lia.
Qed.

(* the Julian date at 0h used by the dataset check is C02's jd_of_date *)
Lemma jdn_jd_of_date y m d : 1 <= m <= 12 -> (inject_Z (jdn y m d) - (1 # 2) == jd_of_date y m d)%Q.
Proof.
  intros Hm. rewrite jdn_civil by auto. unfold jd_of_date, JD1970, Qz, JDN1970.
  generalize (days_from_civil y m d). intros D.
  unfold Qeq, Qminus, Qplus, Qopp, inject_Z. cbn [Qnum Qden]. lia.
Qed.

Example jdn_j2000 : jdn 2000 1 1 = 2451545.
Proof. reflexivity. Qed.

(* the Dataset epoch of a record, in C02's terms: Julian date at 0h of the civil date and the exact seconds of day *)
Lemma dataset_epoch_civil_l y mo d h mi n7 :
  valid_date y mo d = true -> 1000 <= y <= 9999 -> 0 <= h <= 23 -> 0 <= mi <= 59 -> 0 <= n7 < 600000000 ->
  exists day sod, epoch_of_time all_off (time_string y mo d h mi n7) = Some (day, sod) /\
                  (day == jd_of_date y mo d)%Q /\
                  (sod == inject_Z (h * 3600 + mi * 60) + inject_Z n7 / 10000000)%Q.
Proof.
  intros V Hy Hh Hmi Hn. pose proof (valid_date_bounds y mo d V) as [Hmo Hd].
  eexists. eexists. split; [apply Verif.Proofs.C13_Sp3.dataset_epoch_spec_l; lia|]. split.
  - apply jdn_jd_of_date. lia.
  - pose proof (Z.div_mod n7 10000000 ltac:(lia)) as E.
    generalize dependent (n7 / 10000000). generalize dependent (n7 mod 10000000). intros r q E.
    subst n7. rewrite !inject_Z_plus, !inject_Z_mult. field.
Qed.
