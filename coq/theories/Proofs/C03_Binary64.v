(* C03 - the rounding hypothesis of two_part_accuracy discharged for ACTUAL IEEE-754 binary64 addition / subtraction
   (Flocq 4.1: b64_plus / b64_minus, round to nearest even), over the reals. *)
From Coq Require Import ZArith Reals Lia Lra.
From Flocq Require Import Core Binary Bits Relative Plus_error.
Open Scope R_scope.

Notation fexp64 := (FLT_exp (-1074) 53).
Notation rnd64 := (round radix2 fexp64 ZnearestE).
Notation b2r := (B2R 53 1024).

Lemma prec53 : Prec_gt_0 53. Proof. reflexivity. Qed.
#[local] Existing Instance prec53.

Lemma fexp64_eq : SpecFloat.fexp 53 1024 = fexp64.
Proof. reflexivity. Qed.

(* round to nearest even in binary64: relative error 2^-53 for EVERY real (additions never underflow inexactly
   when the argument is a sum of two doubles) *)
Lemma rnd64_sum_error (x y : R) :
  generic_format radix2 fexp64 x -> generic_format radix2 fexp64 y ->
  Rabs (rnd64 (x + y) - (x + y)) <= / 2 * bpow radix2 (-52) * Rabs (x + y).
Proof.
  intros Fx Fy.
  destruct (Rle_or_lt (bpow radix2 (-1074 + 53 - 1)) (Rabs (x + y))) as [H|H].
  - exact (@relative_error_N_FLT radix2 (-1074) 53 prec53 (fun x => negb (Z.even x)) (x + y) H).
  - assert (G : generic_format radix2 fexp64 (x + y)).
    { apply (@FLT_format_plus_small radix2 (-1074) 53 prec53); try assumption.
      apply Rlt_le. apply Rlt_le_trans with (1 := H). apply bpow_le. lia. }
    rewrite round_generic; auto with typeclass_instances.
    replace (x + y - (x + y)) with 0 by ring. rewrite Rabs_R0.
    apply Rmult_le_pos; [|apply Rabs_pos].
    apply Rmult_le_pos; [lra|apply bpow_ge_0].
Qed.

(* IEEE-754 binary64 addition (Flocq's b64_plus, round to nearest even) of two finite doubles whose rounded sum does
   not overflow: the result is finite and within 2^-53 relative of the exact sum *)
Lemma b64_plus_error (x y : binary64) :
  is_finite 53 1024 x = true -> is_finite 53 1024 y = true ->
  Rabs (rnd64 (b2r x + b2r y)) < bpow radix2 1024 ->
  is_finite 53 1024 (b64_plus BinarySingleNaN.mode_NE x y) = true /\
  b2r (b64_plus BinarySingleNaN.mode_NE x y) = rnd64 (b2r x + b2r y) /\
  Rabs (b2r (b64_plus BinarySingleNaN.mode_NE x y) - (b2r x + b2r y)) <= / 2 * bpow radix2 (-52) * Rabs (b2r x + b2r y).
Proof.
  intros Fx Fy Ho. unfold b64_plus.
  match goal with |- context [Bplus 53 1024 ?h1 ?h2 _ _ _ _] =>
    generalize (Bplus_correct 53 1024 h1 h2 binop_nan_pl64 BinarySingleNaN.mode_NE x y Fx Fy) end.
  rewrite fexp64_eq. change (BinarySingleNaN.round_mode BinarySingleNaN.mode_NE) with ZnearestE.
  rewrite Rlt_bool_true by exact Ho.
  intros (E & F & _). split; [exact F|]. split; [exact E|].
  rewrite E. apply rnd64_sum_error; rewrite <- fexp64_eq; apply generic_format_B2R.
Qed.

(* half-integers below 2^52 in magnitude are doubles *)
Lemma halfint_format (k : Z) : (Z.abs k < 2 ^ 53)%Z -> generic_format radix2 fexp64 (IZR k / 2).
Proof.
  intros Hk. apply generic_format_FLT. exists (Float radix2 k (-1)).
  - unfold F2R. cbn. lra.
  - cbn. exact Hk.
  - cbn. lia.
Qed.

Lemma b64_plus_halfint_exact (x y : binary64) (kx ky : Z) :
  is_finite 53 1024 x = true -> is_finite 53 1024 y = true ->
  b2r x = IZR kx / 2 -> b2r y = IZR ky / 2 -> (Z.abs (kx + ky) < 2 ^ 53)%Z ->
  b2r (b64_plus BinarySingleNaN.mode_NE x y) = b2r x + b2r y.
Proof.
  intros Fx Fy Ex Ey Hk.
  assert (S : b2r x + b2r y = IZR (kx + ky) / 2) by (rewrite Ex, Ey, plus_IZR; field).
  assert (G : generic_format radix2 fexp64 (b2r x + b2r y)) by (rewrite S; apply halfint_format; exact Hk).
  assert (R : rnd64 (b2r x + b2r y) = b2r x + b2r y) by (apply round_generic; auto with typeclass_instances).
  destruct (b64_plus_error x y Fx Fy) as (_ & E & _).
  - rewrite R, S. unfold Rdiv. rewrite Rabs_mult, <- abs_IZR.
    rewrite (Rabs_pos_eq (/ 2)) by lra.
    apply Rle_lt_trans with (IZR (2 ^ 53) * / 2).
    + apply Rmult_le_compat_r; [lra|]. apply IZR_le. lia.
    + change (bpow radix2 1024) with (IZR (2 ^ 1024)). 
      apply Rlt_le_trans with (IZR (2 ^ 53)); [|apply IZR_le; lia].
      assert (0 < IZR (2 ^ 53)) by (apply IZR_lt; lia). lra.
  - rewrite E. exact R.
Qed.

(* two-part addition in actual binary64: whole-day parts that are half-integers add exactly, the fractions lose at most
   2^-53 of their sum *)
Theorem two_part_add_binary64 (a1 a2 b1 b2 : binary64) (ka kb : Z) (B : R) :
  is_finite 53 1024 a1 = true -> is_finite 53 1024 a2 = true ->
  is_finite 53 1024 b1 = true -> is_finite 53 1024 b2 = true ->
  b2r a1 = IZR ka / 2 -> b2r b1 = IZR kb / 2 -> (Z.abs (ka + kb) < 2 ^ 53)%Z ->
  Rabs (b2r a2 + b2r b2) <= B -> B <= bpow radix2 1000 ->
  Rabs ((b2r (b64_plus BinarySingleNaN.mode_NE a1 b1) + b2r (b64_plus BinarySingleNaN.mode_NE a2 b2))
        - ((b2r a1 + b2r a2) + (b2r b1 + b2r b2))) <= B * / 2 * bpow radix2 (-52).
Proof.
  intros F1 F2 F3 F4 Ea Eb Hk HB HB2.
  rewrite (b64_plus_halfint_exact a1 b1 ka kb F1 F3 Ea Eb Hk).
  destruct (b64_plus_error a2 b2 F2 F4) as (_ & _ & E).
  - apply Rle_lt_trans with (bpow radix2 1000); [|apply bpow_lt; lia].
    apply abs_round_le_generic; auto with typeclass_instances.
    + apply generic_format_bpow. cbn. lia.
    + lra.
  - replace (b2r a1 + b2r b1 + b2r (b64_plus BinarySingleNaN.mode_NE a2 b2) - (b2r a1 + b2r a2 + (b2r b1 + b2r b2)))
      with (b2r (b64_plus BinarySingleNaN.mode_NE a2 b2) - (b2r a2 + b2r b2)) by ring.
    eapply Rle_trans; [exact E|].
    assert (0 <= / 2 * bpow radix2 (-52)).
    { apply Rmult_le_pos; [lra|apply bpow_ge_0]. }
    nra.
Qed.

Lemma b64_minus_error (x y : binary64) :
  is_finite 53 1024 x = true -> is_finite 53 1024 y = true ->
  Rabs (rnd64 (b2r x - b2r y)) < bpow radix2 1024 ->
  b2r (b64_minus BinarySingleNaN.mode_NE x y) = rnd64 (b2r x - b2r y) /\
  Rabs (b2r (b64_minus BinarySingleNaN.mode_NE x y) - (b2r x - b2r y)) <= / 2 * bpow radix2 (-52) * Rabs (b2r x - b2r y).
Proof.
  intros Fx Fy Ho. unfold b64_minus.
  match goal with |- context [Bminus 53 1024 ?h1 ?h2 _ _ _ _] =>
    generalize (Bminus_correct 53 1024 h1 h2 binop_nan_pl64 BinarySingleNaN.mode_NE x y Fx Fy) end.
  rewrite fexp64_eq. change (BinarySingleNaN.round_mode BinarySingleNaN.mode_NE) with ZnearestE.
  rewrite Rlt_bool_true by exact Ho.
  intros (E & _). split; [exact E|].
  rewrite E. unfold Rminus. apply rnd64_sum_error; [|apply generic_format_opp]; rewrite <- fexp64_eq; apply generic_format_B2R.
Qed.

Lemma b64_minus_halfint_exact (x y : binary64) (kx ky : Z) :
  is_finite 53 1024 x = true -> is_finite 53 1024 y = true ->
  b2r x = IZR kx / 2 -> b2r y = IZR ky / 2 -> (Z.abs (kx - ky) < 2 ^ 53)%Z ->
  b2r (b64_minus BinarySingleNaN.mode_NE x y) = b2r x - b2r y.
Proof.
  intros Fx Fy Ex Ey Hk.
  assert (S : b2r x - b2r y = IZR (kx - ky) / 2) by (rewrite Ex, Ey, minus_IZR; field).
  assert (G : generic_format radix2 fexp64 (b2r x - b2r y)) by (rewrite S; apply halfint_format; exact Hk).
  assert (R : rnd64 (b2r x - b2r y) = b2r x - b2r y) by (apply round_generic; auto with typeclass_instances).
  destruct (b64_minus_error x y Fx Fy) as (E & _).
  - rewrite R, S. unfold Rdiv. rewrite Rabs_mult, <- abs_IZR.
    rewrite (Rabs_pos_eq (/ 2)) by lra.
    apply Rle_lt_trans with (IZR (2 ^ 53) * / 2).
    + apply Rmult_le_compat_r; [lra|]. apply IZR_le. lia.
    + change (bpow radix2 1024) with (IZR (2 ^ 1024)).
      apply Rlt_le_trans with (IZR (2 ^ 53)); [|apply IZR_le; lia].
      assert (0 < IZR (2 ^ 53)) by (apply IZR_lt; lia). lra.
  - rewrite E. exact R.
Qed.

Theorem two_part_sub_binary64 (a1 a2 b1 b2 : binary64) (ka kb : Z) (B : R) :
  is_finite 53 1024 a1 = true -> is_finite 53 1024 a2 = true ->
  is_finite 53 1024 b1 = true -> is_finite 53 1024 b2 = true ->
  b2r a1 = IZR ka / 2 -> b2r b1 = IZR kb / 2 -> (Z.abs (ka - kb) < 2 ^ 53)%Z ->
  Rabs (b2r a2 - b2r b2) <= B -> B <= bpow radix2 1000 ->
  Rabs ((b2r (b64_minus BinarySingleNaN.mode_NE a1 b1) + b2r (b64_minus BinarySingleNaN.mode_NE a2 b2))
        - ((b2r a1 + b2r a2) - (b2r b1 + b2r b2))) <= B * / 2 * bpow radix2 (-52).
Proof.
  intros F1 F2 F3 F4 Ea Eb Hk HB HB2.
  rewrite (b64_minus_halfint_exact a1 b1 ka kb F1 F3 Ea Eb Hk).
  destruct (b64_minus_error a2 b2 F2 F4) as (_ & E).
  - apply Rle_lt_trans with (bpow radix2 1000); [|apply bpow_lt; lia].
    apply abs_round_le_generic; auto with typeclass_instances.
    + apply generic_format_bpow. cbn. lia.
    + lra.
  - replace (b2r a1 - b2r b1 + b2r (b64_minus BinarySingleNaN.mode_NE a2 b2) - (b2r a1 + b2r a2 - (b2r b1 + b2r b2)))
      with (b2r (b64_minus BinarySingleNaN.mode_NE a2 b2) - (b2r a2 - b2r b2)) by ring.
    eapply Rle_trans; [exact E|].
    assert (0 <= / 2 * bpow radix2 (-52)).
    { apply Rmult_le_pos; [lra|apply bpow_ge_0]. }
    nra.
Qed.

(* 4 * 2^-53 day < 1/25 ns *)
Lemma budget_R : 4 * / 2 * bpow radix2 (-52) < / 86400000000000 * / 25.
Proof.
  change (bpow radix2 (-52)) with (/ IZR (Z.pow_pos 2 52)). cbn.
  assert (H : 0 < 4503599627370496) by lra.
  apply Rmult_lt_reg_r with 4503599627370496; [exact H|].
  field_simplify; lra.
Qed.
