(* C19 - _replace on texts that mix literal text, known and unknown variables (with and without format specs). *)
From Coq Require Import ZArith List Bool String Ascii Lia.
From Verif Require Import Gen.C19_BoolStates Model.C19_Config Proofs.C19_Config.
Import ListNotations.
Open Scope string_scope.

(* ================================================================== texts as segments *)
Definition notbrace (a : ascii) : bool := negb (Ascii.eqb a lbrace || Ascii.eqb a rbrace).
Definition nobrace (s : string) : bool := sall notbrace s.

Inductive seg : Set := Lit (l : string) | Ref (w : string) (spec : option string).

Definition body_of (w : string) (spec : option string) : string :=
  match spec with None => w | Some x => w ++ s1 colon ++ x end.
Definition expr_of (w : string) (spec : option string) : string := String lbrace (body_of w spec ++ s1 rbrace).
Definition mkref (w : string) (spec : option string) : rmatch := RMatch w spec (expr_of w spec).

Definition seg_ok (sg : seg) : Prop :=
  match sg with
  | Lit l => nobrace l = true
  | Ref w spec => w <> EmptyString /\ sall is_word w = true /\
                  match spec with Some x => nobrace x = true | None => True end
  end.

Definition render1 (sg : seg) : string := match sg with Lit l => l | Ref w spec => expr_of w spec end.
Fixpoint render (segs : list seg) : string :=
  match segs with [] => EmptyString | sg :: r => render1 sg ++ render r end.
Fixpoint refs (segs : list seg) : list rmatch :=
  match segs with
  | [] => []
  | Lit _ :: r => refs r
  | Ref w spec :: r => mkref w spec :: refs r
  end.

Lemma app_assoc_r (a b c : string) : (a ++ b) ++ c = a ++ (b ++ c).
Proof. induction a; simpl; [reflexivity|]. rewrite IHa. reflexivity. Qed.

Lemma length_app_r (a b : string) : String.length (a ++ b) = String.length a + String.length b.
Proof. induction a; simpl; [reflexivity|]. rewrite IHa. reflexivity. Qed.

(* ---- the regular expression finds exactly the references *)
Lemma span_app p x c rest : sall p x = true -> p c = false -> span p (x ++ String c rest) = (x, String c rest).
Proof.
  induction x as [|a r IH]; simpl; intros Hx Hc; [rewrite Hc; reflexivity|].
  apply andb_true_iff in Hx. destruct Hx as [Ha Hr]. rewrite Ha, (IH Hr Hc). reflexivity.
Qed.

Lemma match_here_ref w spec rest :
  seg_ok (Ref w spec) -> match_here (body_of w spec ++ String rbrace rest) = Some (mkref w spec, rest).
Proof.
  intros [Hn [Hw Hs]]. unfold match_here, body_of, mkref, expr_of, body_of. destruct spec as [x|].
  - rewrite !app_assoc_r. change (s1 colon ++ x ++ String rbrace rest) with (String colon (x ++ String rbrace rest)).
    rewrite (span_app is_word w colon _ Hw eq_refl). destruct w as [|a w'] eqn:Ew; [contradiction|]. rewrite <- Ew in *.
    change (Ascii.eqb colon rbrace) with false. cbv iota. rewrite Ascii.eqb_refl.
    rewrite (span_app (fun a => negb (Ascii.eqb a lbrace || Ascii.eqb a rbrace)) x rbrace rest Hs eq_refl).
    rewrite Ascii.eqb_refl.
    unfold s1. simpl. rewrite ?app_assoc_r. reflexivity.
  - rewrite (span_app is_word w rbrace rest Hw eq_refl). destruct w as [|a w']; [contradiction|].
    rewrite Ascii.eqb_refl. reflexivity.
Qed.

Lemma fm_lit l : forall f rest, nobrace l = true ->
  find_matches (String.length l + f) (l ++ rest) = find_matches f rest.
Proof.
  induction l as [|a r IH]; intros f rest H; [reflexivity|].
  unfold nobrace in H. cbn [sall] in H. apply andb_true_iff in H. destruct H as [Ha Hr].
  cbn [String.length plus append find_matches].
  unfold notbrace in Ha. apply negb_true_iff in Ha. apply orb_false_iff in Ha. rewrite (proj1 Ha). apply IH. exact Hr.
Qed.

Lemma fm_ref w spec f rest :
  seg_ok (Ref w spec) -> find_matches (S f) (expr_of w spec ++ rest) = mkref w spec :: find_matches f rest.
Proof.
  intros H. unfold expr_of. change (String lbrace (body_of w spec ++ s1 rbrace) ++ rest)
    with (String lbrace ((body_of w spec ++ s1 rbrace) ++ rest)).
  cbn [find_matches]. rewrite Ascii.eqb_refl. rewrite app_assoc_r. change (s1 rbrace ++ rest) with (String rbrace rest).
  rewrite (match_here_ref w spec rest H). reflexivity.
Qed.

Lemma fm_nil f : find_matches f EmptyString = [].
Proof. destruct f; reflexivity. Qed.

Lemma fm_render segs : forall f,
  Forall seg_ok segs -> String.length (render segs) <= f -> find_matches f (render segs) = refs segs.
Proof.
  induction segs as [|sg r IH]; intros f F L; [apply fm_nil|]. inversion F; subst. cbn [render] in *.
  rewrite length_app_r in L. destruct sg as [l|w spec]; cbn [render1 refs] in *.
  - replace f with (String.length l + (f - String.length l)) by lia. rewrite fm_lit by exact H1. apply IH; [exact H2|lia].
  - destruct f as [|f']; [unfold expr_of in L; simpl in L; lia|]. rewrite fm_ref by exact H1. f_equal.
    apply IH; [exact H2|]. unfold expr_of in L. simpl in L. lia.
Qed.

Lemma matches_render segs : Forall seg_ok segs -> matches (render segs) = refs segs.
Proof. intros F. unfold matches. apply fm_render; [exact F|lia]. Qed.

(* ================================================================== str.replace of one reference expression *)
Definition nolb (s : string) : bool := sall (fun a => negb (Ascii.eqb lbrace a)) s.

Lemma rf_nil f old new : replace_fuel f old new EmptyString = EmptyString.
Proof. destruct f; reflexivity. Qed.

Lemma rf_copy o' new x : forall f rest, nolb x = true ->
  replace_fuel (String.length x + f) (String lbrace o') new (x ++ rest) = x ++ replace_fuel f (String lbrace o') new rest.
Proof.
  induction x as [|a r IH]; intros f rest H; [reflexivity|].
  unfold nolb in H. cbn [sall] in H. apply andb_true_iff in H. destruct H as [Ha Hr]. apply negb_true_iff in Ha.
  cbn [String.length plus append replace_fuel prefix_b]. rewrite Ha. cbn [andb]. f_equal. apply IH. exact Hr.
Qed.

Lemma prefix_app_r a b : prefix_b a (a ++ b) = true.
Proof. induction a as [|x r IH]; [reflexivity|]. simpl. rewrite Ascii.eqb_refl, IH. reflexivity. Qed.

Lemma drop_app a b : drop (String.length a) (a ++ b) = b.
Proof. induction a as [|x r IH]; [reflexivity|exact IH]. Qed.

Lemma rf_hit f old new rest : old <> EmptyString ->
  replace_fuel (S f) old new (old ++ rest) = new ++ replace_fuel f old new rest.
Proof.
  intros N. destruct old as [|a o]; [contradiction|].
  change (String a o ++ rest) with (String a (o ++ rest)). cbn [replace_fuel].
  change (String a (o ++ rest)) with (String a o ++ rest). rewrite prefix_app_r, drop_app. reflexivity.
Qed.

(* two brace-free bodies followed by a closing brace: one is a prefix of the other only if they are equal *)
Lemma body_prefix b0 : forall b1 x y,
  nobrace b0 = true -> nobrace b1 = true ->
  prefix_b (b0 ++ String rbrace x) (b1 ++ String rbrace y) = true -> b0 = b1.
Proof.
  induction b0 as [|c r IH]; intros b1 x y H0 H1 P.
  - destruct b1 as [|c' r']; [reflexivity|]. exfalso. cbn [append prefix_b] in P. apply andb_true_iff in P.
    destruct P as [Pc _]. apply Ascii.eqb_eq in Pc. subst c'.
    unfold nobrace in H1. cbn [sall] in H1. apply andb_true_iff in H1. destruct H1 as [Hc _].
    unfold notbrace in Hc. rewrite Ascii.eqb_refl, orb_true_r in Hc. discriminate.
  - unfold nobrace in H0. cbn [sall] in H0. apply andb_true_iff in H0. destruct H0 as [Hc Hr].
    destruct b1 as [|c' r'].
    + exfalso. cbn [append prefix_b] in P. apply andb_true_iff in P. destruct P as [Pc _]. apply Ascii.eqb_eq in Pc. subst c.
      unfold notbrace in Hc. rewrite Ascii.eqb_refl, orb_true_r in Hc. discriminate.
    + unfold nobrace in H1. cbn [sall] in H1. apply andb_true_iff in H1. destruct H1 as [_ Hr'].
      cbn [append prefix_b] in P. apply andb_true_iff in P. destruct P as [Pc Pr]. apply Ascii.eqb_eq in Pc. subst c'.
      f_equal. exact (IH r' x y Hr Hr' Pr).
Qed.

Lemma word_notbrace a : is_word a = true -> notbrace a = true.
Proof.
  intros H. unfold notbrace. destruct (Ascii.eqb a lbrace) eqn:E1; [apply Ascii.eqb_eq in E1; subst; discriminate|].
  destruct (Ascii.eqb a rbrace) eqn:E2; [apply Ascii.eqb_eq in E2; subst; discriminate|]. reflexivity.
Qed.

Lemma sall_impl (p q : ascii -> bool) s : (forall a, p a = true -> q a = true) -> sall p s = true -> sall q s = true.
Proof.
  intros I. induction s as [|a r IH]; [reflexivity|]. simpl. intros H. apply andb_true_iff in H. destruct H as [Ha Hr].
  rewrite (I a Ha), (IH Hr). reflexivity.
Qed.

Lemma sall_app_r p a b : sall p (a ++ b) = (sall p a && sall p b)%bool.
Proof. induction a as [|x r IH]; simpl; [reflexivity|]. rewrite IH. apply andb_assoc. Qed.

Lemma body_nobrace w spec : seg_ok (Ref w spec) -> nobrace (body_of w spec) = true.
Proof.
  intros [_ [Hw Hs]]. assert (Nw : nobrace w = true) by (apply (sall_impl is_word); [exact word_notbrace|exact Hw]).
  unfold body_of. destruct spec as [x|]; [|exact Nw]. unfold nobrace in *. rewrite !sall_app_r, Nw, Hs. reflexivity.
Qed.

Lemma word_nocolon a : is_word a = true -> Ascii.eqb a colon = false.
Proof. intros H. destruct (Ascii.eqb a colon) eqn:E; [apply Ascii.eqb_eq in E; subst; discriminate|reflexivity]. Qed.

(* the body determines name and format specifier *)
Lemma body_inj w : forall w' spec spec',
  sall is_word w = true -> sall is_word w' = true -> body_of w spec = body_of w' spec' -> w = w' /\ spec = spec'.
Proof.
  induction w as [|a r IH]; intros w' spec spec' Hw Hw' E.
  - destruct w' as [|a' r'].
    + split; [reflexivity|]. unfold body_of in E. destruct spec, spec'; simpl in E; try discriminate; [inversion E|]; reflexivity.
    + exfalso. cbn [sall] in Hw'. apply andb_true_iff in Hw'. destruct Hw' as [Ha' _].
      unfold body_of in E. destruct spec as [x|]; destruct spec'; simpl in E; try discriminate;
        inversion E; subst; discriminate.
  - cbn [sall] in Hw. apply andb_true_iff in Hw. destruct Hw as [Ha Hr].
    destruct w' as [|a' r'].
    + exfalso. unfold body_of in E. destruct spec; destruct spec' as [x'|]; simpl in E; try discriminate;
        inversion E; subst; discriminate.
    + cbn [sall] in Hw'. apply andb_true_iff in Hw'. destruct Hw' as [_ Hr'].
      assert (E' : body_of r spec = body_of r' spec' /\ a = a').
      { unfold body_of in *. destruct spec, spec'; simpl in E; injection E as H0 H1; split; assumption. }
      destruct E' as [E' ->]. destruct (IH r' spec spec' Hr Hr' E') as [-> ->]. split; reflexivity.
Qed.

Definition opt_s_eqb (a b : option string) : bool :=
  match a, b with Some x, Some y => String.eqb x y | None, None => true | _, _ => false end.
Lemma opt_s_eqb_eq a b : opt_s_eqb a b = true <-> a = b.
Proof.
  destruct a, b; simpl; try (split; [discriminate|intros H; discriminate H]); [|tauto].
  rewrite String.eqb_eq. split; [intros ->; reflexivity|intros H; inversion H; reflexivity].
Qed.

(* replace the references to (w0, spec0) by the literal t *)
Definition subst1 (w0 : string) (spec0 : option string) (t : string) (sg : seg) : seg :=
  match sg with
  | Lit l => Lit l
  | Ref w spec => if (String.eqb w w0 && opt_s_eqb spec spec0)%bool then Lit t else Ref w spec
  end.

Lemma nolb_of_nobrace x : nobrace x = true -> nolb x = true.
Proof.
  apply sall_impl. intros a H. unfold notbrace in H. apply negb_true_iff in H. apply orb_false_iff in H.
  rewrite Ascii.eqb_sym, (proj1 H). reflexivity.
Qed.

Lemma rf_render w0 spec0 t segs : forall f,
  seg_ok (Ref w0 spec0) -> Forall seg_ok segs -> String.length (render segs) <= f ->
  replace_fuel f (expr_of w0 spec0) t (render segs) = render (map (subst1 w0 spec0 t) segs).
Proof.
  intros f H0. revert f. induction segs as [|sg r IH]; intros f F L; [apply rf_nil|]. inversion F as [|? ? Hsg Hrest]; subst.
  cbn [render map] in *. rewrite length_app_r in L. destruct sg as [l|w spec]; cbn [render1 subst1] in *.
  - replace f with (String.length l + (f - String.length l)) by lia. unfold expr_of at 1.
    rewrite rf_copy by (apply nolb_of_nobrace; exact Hsg). f_equal. apply IH; [exact Hrest|lia].
  - destruct (String.eqb w w0 && opt_s_eqb spec spec0)%bool eqn:E.
    + apply andb_true_iff in E. destruct E as [Ew Es]. apply String.eqb_eq in Ew. apply opt_s_eqb_eq in Es. subst.
      destruct f as [|f']; [unfold expr_of in L; simpl in L; lia|].
      rewrite rf_hit by (unfold expr_of; discriminate). cbn [render1]. f_equal. apply IH; [exact Hrest|].
      unfold expr_of in L. simpl in L. lia.
    + (* a different reference: copied character by character *)
      assert (P : prefix_b (expr_of w0 spec0) (expr_of w spec ++ render r) = false).
      { destruct (prefix_b (expr_of w0 spec0) (expr_of w spec ++ render r)) eqn:P; [|reflexivity]. exfalso.
        unfold expr_of in P. cbn [append prefix_b] in P. rewrite Ascii.eqb_refl in P. cbn [andb] in P.
        rewrite app_assoc_r in P. change (s1 rbrace ++ render r) with (String rbrace (render r)) in P.
        change (body_of w0 spec0 ++ s1 rbrace) with (body_of w0 spec0 ++ String rbrace EmptyString) in P.
        apply body_prefix in P; [|apply body_nobrace; assumption|apply body_nobrace; assumption].
        destruct H0 as [_ [Hw0 _]]. destruct Hsg as [_ [Hw _]].
        destruct (body_inj w0 w spec0 spec Hw0 Hw P) as [-> ->].
        rewrite String.eqb_refl in E. simpl in E. rewrite (proj2 (opt_s_eqb_eq spec spec) eq_refl) in E. discriminate. }
      destruct f as [|f']; [unfold expr_of in L; simpl in L; lia|].
      unfold expr_of at 2. change (String lbrace (body_of w spec ++ s1 rbrace) ++ render r)
        with (String lbrace ((body_of w spec ++ s1 rbrace) ++ render r)).
      cbn [replace_fuel]. change (String lbrace ((body_of w spec ++ s1 rbrace) ++ render r)) with (expr_of w spec ++ render r).
      rewrite P. cbn [render1].
      change (expr_of w spec ++ render (map (subst1 w0 spec0 t) r))
        with (String lbrace ((body_of w spec ++ s1 rbrace) ++ render (map (subst1 w0 spec0 t) r))). f_equal.
      assert (Lb : String.length (expr_of w spec) = S (String.length (body_of w spec ++ s1 rbrace))) by reflexivity.
      replace f' with (String.length (body_of w spec ++ s1 rbrace) + (f' - String.length (body_of w spec ++ s1 rbrace))) by lia.
      unfold expr_of at 1. rewrite rf_copy.
      * f_equal. apply IH; [exact Hrest|]. rewrite Lb in L. lia.
      * unfold nolb. rewrite sall_app_r. fold (nolb (body_of w spec)).
        rewrite (nolb_of_nobrace _ (body_nobrace w spec Hsg)). reflexivity.
Qed.

Lemma replace_all_render w0 spec0 t segs :
  seg_ok (Ref w0 spec0) -> Forall seg_ok segs ->
  replace_all (expr_of w0 spec0) t (render segs) = render (map (subst1 w0 spec0 t) segs).
Proof. intros H0 F. unfold replace_all, expr_of at 1. apply rf_render; [exact H0|exact F|lia]. Qed.

(* ================================================================== the sequential replacement equals the simultaneous one *)
Definition stepf (f : nat) (vars : list (string * string)) (acc : res string) (m : rmatch) : res string :=
  match acc with
  | Err e => Err e
  | Ok cur =>
      match sget (m_var m) vars with
      | Some v =>
          match replace_vars_in all_off f vars None v with
          | Ok v' => match fmt_match m v' with Some t => Ok (replace_all (m_expr m) t cur) | None => Err ErrValue end
          | Err e => Err e
          end
      | None => Ok cur
      end
  end.

Lemma replace_unfold f vars s :
  replace_vars_in all_off (S f) vars None s = fold_left (stepf f vars) (matches s) (Ok s).
Proof. reflexivity. Qed.

Lemma app_nil_r_ (a : string) : a ++ "" = a.
Proof. induction a; simpl; [reflexivity|]. rewrite IHa. reflexivity. Qed.

Lemma matches_nobrace v : nobrace v = true -> matches v = [].
Proof.
  intros H. unfold matches. replace (S (String.length v)) with (String.length v + 1) by lia.
  rewrite <- (app_nil_r_ v) at 2. rewrite fm_lit by exact H. reflexivity.
Qed.

Lemma nested_id f vars v : nobrace v = true -> replace_vars_in all_off (S f) vars None v = Ok v.
Proof. intros H. rewrite replace_unfold, (matches_nobrace v H). reflexivity. Qed.

Lemma nobrace_spaces n : nobrace (spaces n) = true.
Proof. induction n; [reflexivity|exact IHn]. Qed.

Lemma fmt_nobrace m v t : nobrace v = true -> fmt_match m v = Some t -> nobrace t = true.
Proof.
  intros Hv. unfold fmt_match. destruct (all_digits (m_var m)); [discriminate|].
  destruct (m_spec m) as [spec|]; [|intros H; inversion H; subst; exact Hv].
  unfold apply_spec. destruct spec as [|a r]; [intros H; inversion H; subst; exact Hv|].
  assert (P : forall n, nobrace (pad_right n v) = true /\ nobrace (pad_left n v) = true /\ nobrace (pad_center n v) = true).
  { intros n. unfold pad_right, pad_left, pad_center, nobrace. rewrite !sall_app_r.
    fold (nobrace v). fold (nobrace (spaces (n - String.length v))).
    fold (nobrace (spaces (Nat.div (n - String.length v) 2))).
    fold (nobrace (spaces (n - String.length v - Nat.div (n - String.length v) 2))).
    rewrite Hv, !nobrace_spaces. repeat split; reflexivity. }
  destruct (Ascii.eqb a "<"); [destruct (nat_of_digits 0 r); [|discriminate]; intros H; inversion H; apply P|].
  destruct (Ascii.eqb a ">"); [destruct (nat_of_digits 0 r); [|discriminate]; intros H; inversion H; apply P|].
  destruct (Ascii.eqb a "^"); [destruct (nat_of_digits 0 r); [|discriminate]; intros H; inversion H; apply P|].
  destruct (digit_val a); [|discriminate].
  destruct (nat_of_digits 0 (String a r)); [|discriminate]. intros H; inversion H; apply P.
Qed.

Definition known_ok (vars : list (string * string)) (sg : seg) : Prop :=
  match sg with
  | Lit _ => True
  | Ref w spec => forall v, sget w vars = Some v -> nobrace v = true /\ exists t, fmt_match (mkref w spec) v = Some t
  end.

(* what a segment becomes *)
Definition out (vars : list (string * string)) (sg : seg) : string :=
  match sg with
  | Lit l => l
  | Ref w spec =>
      match sget w vars with
      | Some v => match fmt_match (mkref w spec) v with Some t => t | None => expr_of w spec end
      | None => expr_of w spec
      end
  end.
Fixpoint render' (vars : list (string * string)) (segs : list seg) : string :=
  match segs with [] => EmptyString | sg :: r => out vars sg ++ render' vars r end.

Definition subst_m (vars : list (string * string)) (p : string * option string) (sg : seg) : seg :=
  match sget (fst p) vars with
  | Some v => match fmt_match (mkref (fst p) (snd p)) v with Some t => subst1 (fst p) (snd p) t sg | None => sg end
  | None => sg
  end.

Fixpoint ref_pairs (segs : list seg) : list (string * option string) :=
  match segs with
  | [] => []
  | Lit _ :: r => ref_pairs r
  | Ref w spec :: r => (w, spec) :: ref_pairs r
  end.

Lemma refs_pairs segs : refs segs = map (fun p => mkref (fst p) (snd p)) (ref_pairs segs).
Proof. induction segs as [|[l|w spec] r IH]; simpl; [reflexivity|exact IH|rewrite IH; reflexivity]. Qed.

Lemma subst1_ok w0 spec0 t segs : nobrace t = true -> Forall seg_ok segs -> Forall seg_ok (map (subst1 w0 spec0 t) segs).
Proof.
  intros Ht F. rewrite Forall_forall in *. intros x Hx. apply in_map_iff in Hx. destruct Hx as [sg [<- Hsg]].
  destruct sg as [l|w spec]; simpl; [exact (F _ Hsg)|].
  destruct (String.eqb w w0 && opt_s_eqb spec spec0)%bool; [exact Ht|exact (F _ Hsg)].
Qed.

Lemma fold_steps f vars ms : forall segs,
  Forall (fun p => seg_ok (Ref (fst p) (snd p)) /\ known_ok vars (Ref (fst p) (snd p))) ms ->
  Forall seg_ok segs ->
  fold_left (stepf (S f) vars) (map (fun p => mkref (fst p) (snd p)) ms) (Ok (render segs)) =
  Ok (render (fold_left (fun sgs p => map (subst_m vars p) sgs) ms segs)).
Proof.
  induction ms as [|[w0 spec0] r IH]; intros segs Fm Fs; [reflexivity|].
  inversion Fm as [|? ? [Hok Hk] Fr]; subst. cbn [map fold_left fst snd] in *.
  unfold stepf at 2. cbn [m_var mkref m_expr].
  destruct (sget w0 vars) as [v|] eqn:Ev.
  - destruct (Hk v Ev) as [Nv [t Et]]. rewrite (nested_id f vars v Nv). cbn [m_var mkref] in Et |- *.
    change (RMatch w0 spec0 (expr_of w0 spec0)) with (mkref w0 spec0). rewrite Et.
    rewrite (replace_all_render w0 spec0 t segs Hok Fs).
    replace (map (subst_m vars (w0, spec0)) segs) with (map (subst1 w0 spec0 t) segs).
    + apply IH; [exact Fr|]. apply subst1_ok; [eapply fmt_nobrace; eassumption|exact Fs].
    + apply map_ext. intros sg. unfold subst_m. cbn [fst snd]. rewrite Ev, Et. reflexivity.
  - replace (map (subst_m vars (w0, spec0)) segs) with segs.
    + apply IH; assumption.
    + rewrite <- (map_id segs) at 1. apply map_ext. intros sg. unfold subst_m. cbn [fst snd]. rewrite Ev. reflexivity.
Qed.

Lemma fold_map_comm {A B} (g : B -> A -> A) ms : forall l : list A,
  fold_left (fun sgs p => map (g p) sgs) ms l = map (fun sg => fold_left (fun s p => g p s) ms sg) l.
Proof.
  induction ms as [|m r IH]; intros l; [simpl; rewrite map_id; reflexivity|].
  simpl. rewrite IH, map_map. reflexivity.
Qed.

Lemma fold_lit vars ms l : fold_left (fun s p => subst_m vars p s) ms (Lit l) = Lit l.
Proof.
  induction ms as [|p r IH]; [reflexivity|]. simpl. unfold subst_m at 2.
  destruct (sget (fst p) vars); [destruct (fmt_match _ _)|]; exact IH.
Qed.

Lemma pair_test w spec w0 spec0 :
  (String.eqb w w0 && opt_s_eqb spec spec0)%bool = true <-> (w, spec) = (w0, spec0).
Proof.
  rewrite andb_true_iff, String.eqb_eq, opt_s_eqb_eq. split; [intros [-> ->]; reflexivity|intros H; inversion H; auto].
Qed.

Lemma seg_final vars ms w spec :
  In (w, spec) ms ->
  render1 (fold_left (fun s p => subst_m vars p s) ms (Ref w spec)) = out vars (Ref w spec).
Proof.
  intros Hin. cbn [out]. destruct (sget w vars) as [v|] eqn:Ev.
  - destruct (fmt_match (mkref w spec) v) as [t|] eqn:Et.
    + (* known: replaced when its own pair is processed *)
      induction ms as [|[w0 spec0] r IH]; [destruct Hin|]. simpl.
      destruct (String.eqb w w0 && opt_s_eqb spec spec0)%bool eqn:E.
      * apply pair_test in E. inversion E; subst. unfold subst_m at 2. cbn [fst snd]. rewrite Ev, Et.
        cbn [subst1]. rewrite String.eqb_refl, (proj2 (opt_s_eqb_eq spec0 spec0) eq_refl). cbn [andb].
        rewrite fold_lit. reflexivity.
      * assert (S : subst_m vars (w0, spec0) (Ref w spec) = Ref w spec).
        { unfold subst_m. cbn [fst snd]. destruct (sget w0 vars) as [v0|]; [|reflexivity].
          destruct (fmt_match (mkref w0 spec0) v0); [|reflexivity]. cbn [subst1]. rewrite E. reflexivity. }
        rewrite S. apply IH. destruct Hin as [H|H]; [|exact H].
        inversion H; subst. rewrite String.eqb_refl, (proj2 (opt_s_eqb_eq spec spec) eq_refl) in E. discriminate.
    + (* no valid format: never replaced *)
      assert (S : forall ms', fold_left (fun s p => subst_m vars p s) ms' (Ref w spec) = Ref w spec).
      { induction ms' as [|[w0 spec0] r IH]; [reflexivity|]. simpl.
        assert (S1 : subst_m vars (w0, spec0) (Ref w spec) = Ref w spec).
        { unfold subst_m. cbn [fst snd]. destruct (sget w0 vars) as [v0|] eqn:E0; [|reflexivity].
          destruct (fmt_match (mkref w0 spec0) v0) eqn:E1; [|reflexivity]. cbn [subst1].
          destruct (String.eqb w w0 && opt_s_eqb spec spec0)%bool eqn:E; [|reflexivity].
          apply pair_test in E. inversion E; subst. rewrite Ev in E0. inversion E0; subst. rewrite Et in E1. discriminate. }
        rewrite S1. exact IH. }
      rewrite S. reflexivity.
  - assert (S : forall ms', fold_left (fun s p => subst_m vars p s) ms' (Ref w spec) = Ref w spec).
    { induction ms' as [|[w0 spec0] r IH]; [reflexivity|]. simpl.
      assert (S1 : subst_m vars (w0, spec0) (Ref w spec) = Ref w spec).
      { unfold subst_m. cbn [fst snd]. destruct (sget w0 vars) as [v0|] eqn:E0; [|reflexivity].
        destruct (fmt_match (mkref w0 spec0) v0) eqn:E1; [|reflexivity]. cbn [subst1].
        destruct (String.eqb w w0 && opt_s_eqb spec spec0)%bool eqn:E; [|reflexivity].
        apply pair_test in E. inversion E; subst. rewrite Ev in E0. discriminate. }
      rewrite S1. exact IH. }
    rewrite S. reflexivity.
Qed.

Lemma render_final vars ms : forall segs,
  (forall w spec, In (Ref w spec) segs -> In (w, spec) ms) ->
  render (map (fun sg => fold_left (fun s p => subst_m vars p s) ms sg) segs) = render' vars segs.
Proof.
  induction segs as [|sg r IH]; intros H; [reflexivity|]. cbn [map render render'].
  rewrite IH by (intros w spec Hw; apply H; right; exact Hw). f_equal.
  destruct sg as [l|w spec]; [rewrite fold_lit; reflexivity|]. apply seg_final. apply H. left. reflexivity.
Qed.

Lemma in_ref_pairs segs w spec : In (Ref w spec) segs -> In (w, spec) (ref_pairs segs).
Proof.
  induction segs as [|[l|w0 spec0] r IH]; intros H; [destruct H| |].
  - destruct H as [H|H]; [discriminate|]. exact (IH H).
  - destruct H as [H|H]; [inversion H; left; reflexivity|right; exact (IH H)].
Qed.

(* MIXED TEXTS: literal text, known and unknown variables, with and without format specifiers *)
Theorem replace_mixed vars segs :
  Forall seg_ok segs -> Forall (known_ok vars) segs ->
  py_replace all_off vars None (render segs) = Ok (render' vars segs).
Proof.
  intros Fs Fk. unfold py_replace. rewrite replace_unfold, (matches_render segs Fs), refs_pairs.
  rewrite fold_steps.
  - rewrite fold_map_comm, render_final; [reflexivity|]. intros w spec H. apply in_ref_pairs. exact H.
  - clear -Fs Fk. induction segs as [|[l|w spec] r IH]; [constructor| |].
    + inversion Fs; inversion Fk; subst. apply IH; assumption.
    + inversion Fs; inversion Fk; subst. constructor; [split; assumption|apply IH; assumption].
  - exact Fs.
Qed.
