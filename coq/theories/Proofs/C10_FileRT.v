(* C10 (b) - the round trip  read (write d lvl) ~ restrict lvl d  of Model/C10_File.v in the specification
   setting all_off, the identity of referenced objects and the distinctness of the field objects. *)
From Coq Require Import ZArith List Bool String Ascii Lia Permutation.
From Verif Require Import Lib.Dyadic Model.C10_Attr Model.C10_File Proofs.C10_Attr.
Import ListNotations.

Definition entry_equiv (a b : entry) : Prop :=
  match a, b with
  | EColl, EColl => True
  | ELeaf x, ELeaf y => l_kind x = l_kind y /\ l_level x = l_level y /\ l_unit x = l_unit y /\ l_mult x = l_mult y /\
                        l_pl x = l_pl y /\ Permutation (l_refs x) (l_refs y)
  | _, _ => False
  end.
Definition dataset_equiv (a b : dataset) : Prop :=
  Forall2 (fun x y => fst x = fst y /\ entry_equiv (snd x) (snd y)) (d_fields a) (d_fields b) /\
  d_meta a = d_meta b /\ d_vars a = d_vars b /\ d_numobs a = d_numobs b /\ d_version a = d_version b.

(* a private reference attribute `a` of the leaf p is not shadowed by a field p.a *)
Definition no_shadow (d : dataset) : Prop :=
  forall p l a pl q e, In (p, ELeaf l) (d_fields d) -> In (a, ROwn pl) (l_refs l) -> In (q, e) (d_fields d) -> q <> p ++ [a].

(* ------------------------------------------------------------------ generalities *)
Lemma path_eqb_eq : forall a b, path_eqb a b = true <-> a = b.
Proof.
  induction a as [|x a IH]; destruct b as [|y b]; cbn; split; intro H; try reflexivity; try discriminate.
  - apply andb_true_iff in H. destruct H as [H1 H2]. apply String.eqb_eq in H1. apply IH in H2. subst. reflexivity.
  - inversion H; subst. rewrite String.eqb_refl. cbn. apply IH. reflexivity.
Qed.

Lemma path_eqb_refl : forall a, path_eqb a a = true.
Proof. intro a. apply path_eqb_eq. reflexivity. Qed.

Lemma Forall2_impl_In_l : forall {A B} (R R' : A -> B -> Prop) l l',
  (forall a b, In a l -> R a b -> R' a b) -> Forall2 R l l' -> Forall2 R' l l'.
Proof.
  intros A B R R' l l' H F. induction F; constructor.
  - apply H; [left; reflexivity|assumption].
  - apply IHF. intros a b Ha. apply H. right. assumption.
Qed.

Lemma Forall2_in_l : forall {A B} (R : A -> B -> Prop) l l' a,
  Forall2 R l l' -> In a l -> exists b, In b l' /\ R a b.
Proof.
  intros A B R l l' a F. induction F; intros Hin; [destruct Hin|].
  destruct Hin as [->|Hin].
  - eexists; split; [left; reflexivity|assumption].
  - destruct (IHF Hin) as (b & Hb & Hr). exists b. split; [right; assumption|assumption].
Qed.

Lemma Forall2_in_r : forall {A B} (R : A -> B -> Prop) l l' b,
  Forall2 R l l' -> In b l' -> exists a, In a l /\ R a b.
Proof.
  intros A B R l l' b F. induction F; intros Hin; [destruct Hin|].
  destruct Hin as [->|Hin].
  - eexists; split; [left; reflexivity|assumption].
  - destruct (IHF Hin) as (a & Ha & Hr). exists a. split; [right; assumption|assumption].
Qed.

Lemma plookup_in : forall {A} q (fs : list (path * A)) e, plookup q fs = Some e -> In (q, e) fs.
Proof.
  intros A q fs e. induction fs as [|[p x] fs IH]; cbn; [discriminate|].
  destruct (path_eqb q p) eqn:E.
  - intro H. inversion H; subst. apply path_eqb_eq in E. subst. left. reflexivity.
  - intro H. right. apply IH. assumption.
Qed.

Lemma nodup_paths_fun : forall {A} (fs : list (path * A)) p e1 e2,
  nodup_paths (map fst fs) = true -> In (p, e1) fs -> In (p, e2) fs -> e1 = e2.
Proof.
  intros A fs p e1 e2. induction fs as [|[p0 e0] fs IH]; cbn; [intros _ []|].
  intros H H1 H2. apply andb_true_iff in H. destruct H as [Hn Hd].
  assert (Hno : forall e, In (p0, e) fs -> False).
  { intros e He. apply negb_true_iff in Hn.
    assert (X : existsb (path_eqb p0) (map fst fs) = true).
    { apply existsb_exists. exists p0. split; [|apply path_eqb_refl]. apply in_map_iff. exists (p0, e). auto. }
    rewrite X in Hn. discriminate. }
  destruct H1 as [H1|H1]; destruct H2 as [H2|H2].
  - inversion H1; inversion H2; subst. reflexivity.
  - inversion H1; subst. exfalso. eapply Hno. eassumption.
  - inversion H2; subst. exfalso. eapply Hno. eassumption.
  - apply IH; assumption.
Qed.

(* ------------------------------------------------------------------ dotted is injective *)
Definition nodot (s : string) : Prop := existsb (Ascii.eqb "."%char) (list_ascii_of_string s) = false.
Definition dotstart (s : string) : Prop := s = EmptyString \/ exists r, s = String "."%char r.

Lemma append_nil_r : forall s, (s ++ "")%string = s.
Proof. induction s; cbn; [reflexivity|]. rewrite IHs. reflexivity. Qed.

Lemma app_assoc_s : forall a b c, ((a ++ b) ++ c)%string = (a ++ (b ++ c))%string.
Proof. induction a; intros; cbn; [reflexivity|]. rewrite IHa. reflexivity. Qed.

Lemma split_dot : forall x y s1 s2, nodot x -> nodot y -> dotstart s1 -> dotstart s2 ->
  (x ++ s1)%string = (y ++ s2)%string -> x = y /\ s1 = s2.
Proof.
  induction x as [|c x IH]; destruct y as [|c' y]; cbn [append]; intros s1 s2 Hx Hy H1 H2 E.
  - split; [reflexivity|assumption].
  - exfalso. destruct H1 as [->|[r ->]]; [discriminate|]. inversion E; subst.
    unfold nodot in Hy. cbn in Hy. discriminate.
  - exfalso. destruct H2 as [->|[r ->]]; [discriminate|]. inversion E; subst.
    unfold nodot in Hx. cbn in Hx. discriminate.
  - inversion E; subst.
    unfold nodot in Hx, Hy. cbn in Hx, Hy. apply orb_false_iff in Hx. apply orb_false_iff in Hy.
    destruct (IH y s1 s2) as [-> ->]; try tauto.
Qed.

Lemma comp_ok_nodot : forall s, comp_ok s = true -> nodot s /\ s <> EmptyString.
Proof.
  intros s H. unfold comp_ok in H. apply andb_true_iff in H. destruct H as [H1 H2].
  apply negb_true_iff in H1. apply negb_true_iff in H2. split; [exact H2|].
  intro E. subst. discriminate.
Qed.

Lemma dotted_cons2 : forall x y p, dotted (x :: y :: p) = (x ++ "." ++ dotted (y :: p))%string.
Proof. reflexivity. Qed.

Lemma dotted_inj : forall p q, forallb comp_ok p = true -> forallb comp_ok q = true ->
  dotted p = dotted q -> p = q.
Proof.
  induction p as [|x p IH]; intros q Hp Hq E.
  - destruct q as [|y q]; [reflexivity|]. exfalso. cbn in Hq. apply andb_true_iff in Hq. destruct Hq as [Hy _].
    apply comp_ok_nodot in Hy. destruct Hy as [_ Hy]. destruct q; cbn in E; [congruence|].
    destruct y; [congruence|discriminate].
  - cbn in Hp. apply andb_true_iff in Hp. destruct Hp as [Hx Hp]. destruct (comp_ok_nodot _ Hx) as [Nx Ex].
    destruct q as [|y q].
    + exfalso. destruct p; cbn in E; [congruence|]. destruct x; [congruence|discriminate].
    + cbn in Hq. apply andb_true_iff in Hq. destruct Hq as [Hy Hq]. destruct (comp_ok_nodot _ Hy) as [Ny Ey].
      destruct p as [|x2 p]; destruct q as [|y2 q].
      * cbn in E. subst. reflexivity.
      * exfalso. rewrite dotted_cons2 in E. cbn [dotted concat] in E. rewrite <- (append_nil_r x) in E.
        destruct (split_dot _ _ _ _ Nx Ny (or_introl eq_refl) (or_intror (ex_intro _ _ eq_refl)) E) as [_ X]. discriminate.
      * exfalso. rewrite dotted_cons2 in E. cbn [dotted concat] in E. rewrite <- (append_nil_r y) in E.
        destruct (split_dot _ _ _ _ Nx Ny (or_intror (ex_intro _ _ eq_refl)) (or_introl eq_refl) E) as [_ X]. discriminate.
      * rewrite !dotted_cons2 in E.
        destruct (split_dot _ _ _ _ Nx Ny (or_intror (ex_intro _ _ eq_refl)) (or_intror (ex_intro _ _ eq_refl)) E) as [-> X].
        cbn [append] in X. inversion X as [X']. f_equal. apply IH; assumption.
Qed.

Lemma dotted_snoc : forall p a, p <> [] -> dotted (p ++ [a]) = (dotted p ++ "." ++ a)%string.
Proof.
  induction p as [|x p IH]; intros a Hp; [congruence|].
  destruct p as [|y p].
  - reflexivity.
  - change ((x :: y :: p) ++ [a]) with (x :: y :: (p ++ [a])). rewrite !dotted_cons2.
    change (y :: p ++ [a]) with ((y :: p) ++ [a]). rewrite IH by discriminate.
    rewrite !app_assoc_s. reflexivity.
Qed.

(* ------------------------------------------------------------------ the codec, as far as it is used *)
Definition enc_of (t : tree) : aval := match encode false t with Ok e => AEnc e | Raise _ => AStr "" end.

Lemma enc_attr_spec : forall t, encodable t = true ->
  enc_attr all_off t = Some (enc_of t) /\ exists e, enc_of t = AEnc e /\ decode false e = Some t.
Proof.
  intros t H. destruct (attr_roundtrip_spec t H) as (e & E & D). unfold enc_attr, enc_of. cbn [q_regex all_off].
  rewrite E. split; [reflexivity|]. exists e. auto.
Qed.

Definition uenc (u : option (list string)) : aval :=
  match u with None => AStr "" | Some us => enc_of (Tuple (map sstr us)) end.

Lemma unit_attr_spec : forall u, unit_attr all_off u = Some (uenc u).
Proof. intros [us|]; cbn [unit_attr uenc]; [|reflexivity]. apply enc_attr_spec. reflexivity. Qed.

Lemma read_unit_spec : forall u, read_unit all_off (uenc u) = Some u.
Proof.
  intros [us|]; cbn [uenc]; [|reflexivity].
  destruct (enc_attr_spec (Tuple (map sstr us)) eq_refl) as (_ & e & E & D). rewrite E.
  cbn [read_unit q_regex all_off]. rewrite D.
  assert (X : flat_map (fun t => match t with Str s => [string_of_list_ascii s] | _ => [] end) (map sstr us) = us).
  { clear E D. induction us as [|u us IH]; cbn; [reflexivity|]. rewrite string_of_list_ascii_of_string. f_equal. exact IH. }
  rewrite X. rewrite map_length. rewrite Nat.eqb_refl. reflexivity.
Qed.

Lemma level_roundtrip : forall lv, (1 <= lv <= 3)%Z -> level_of_name (level_name lv) = Some lv.
Proof.
  intros lv H. assert (X : lv = 1%Z \/ lv = 2%Z \/ lv = 3%Z) by lia.
  destruct X as [->|[->| ->]]; reflexivity.
Qed.

Lemma lookup_none : forall {A} k (l : list (string * A)),
  existsb (String.eqb k) (map fst l) = false -> lookup k l = None.
Proof.
  intros A k l. induction l as [|[k' v] l IH]; cbn; [reflexivity|].
  intro H. apply orb_false_iff in H. destruct H as [H1 H2]. rewrite H1. apply IH. exact H2.
Qed.

Lemma payload_roundtrip : forall nm pl, payload_ok nm pl = true -> read_payload (write_obj nm pl) = pl.
Proof.
  intros nm [c sa mn ex] H. unfold payload_ok in H. cbn [p_extra] in H. apply andb_true_iff in H. destruct H as [_ H].
  apply negb_true_iff in H.
  unfold read_payload, write_obj, obj_data. cbn [o_class o_fieldname o_sattrs o_data p_class p_sattrs p_main p_extra].
  assert (F : filter (fun na : string * arr => negb (String.eqb (fst na) nm)) ex = ex).
  { clear mn. induction ex as [|[k v] ex IH]; cbn; [reflexivity|]. cbn in H. apply orb_false_iff in H. destruct H as [H1 H2].
    rewrite String.eqb_sym. rewrite H1. cbn. f_equal. apply IH. exact H2. }
  f_equal.
  - destruct mn as [a|]; cbn.
    + rewrite String.eqb_refl. reflexivity.
    + apply lookup_none. exact H.
  - destruct mn as [a|]; cbn.
    + rewrite String.eqb_refl. cbn. exact F.
    + exact F.
Qed.

(* ------------------------------------------------------------------ write in closed form *)
Definition fld_of (rs : list (string * ref)) : list (string * path) :=
  flat_map (fun ar => match snd ar with RField q => [(fst ar, q)] | ROwn _ => [] end) rs.
Definition own_of (rs : list (string * ref)) : list (string * payload) :=
  flat_map (fun ar => match snd ar with ROwn pl => [(fst ar, pl)] | RField _ => [] end) rs.
Definition ra_of (rs : list (string * ref)) : list (string * string) :=
  map (fun aq => (fst aq, dotted (snd aq))) (fld_of rs).
Definition su_of (rs : list (string * ref)) : list (string * h5obj) :=
  map (fun ap => (fst ap, write_obj (fst ap) (snd ap))) (own_of rs).

Lemma in_fld_of : forall rs a q, In (a, q) (fld_of rs) <-> In (a, RField q) rs.
Proof.
  intros rs a q. unfold fld_of. rewrite in_flat_map. split.
  - intros [[a' r] [Hin H]]. destruct r; cbn in H; [|contradiction]. destruct H as [H|[]]. inversion H; subst. exact Hin.
  - intro H. exists (a, RField q). split; [exact H|left; reflexivity].
Qed.

Lemma in_own_of : forall rs a pl, In (a, pl) (own_of rs) <-> In (a, ROwn pl) rs.
Proof.
  intros rs a q. unfold own_of. rewrite in_flat_map. split.
  - intros [[a' r] [Hin H]]. destruct r; cbn in H; [contradiction|]. destruct H as [H|[]]. inversion H; subst. exact Hin.
  - intro H. exists (a, ROwn q). split; [exact H|left; reflexivity].
Qed.

Definition grp (p : path) (l : leaf) : h5leaf :=
  {| g_kind := l_kind l; g_unit := uenc (l_unit l); g_level := level_name (l_level l); g_mult := l_mult l;
     g_obj := write_obj (dotted p) (l_pl l); g_refattrs := ra_of (l_refs l); g_subs := su_of (l_refs l) |}.

Definition wgroup (lvl : Z) (A : list (path * entry)) (pe : path * entry) : list (path * h5entry) :=
  match pe with
  | (p, ELeaf l) => if (lvl <=? l_level l)%Z then [(p, HLeaf (grp p l))] else []
  | (p, EColl) => [(p, HColl (last p ""%string) (enc_of (fields_dict lvl A p)))]
  end.

Lemma write_refs_spec : forall fs fname m rs,
  (forall a q, In (a, RField q) rs -> plookup q m = Some (dotted q)) ->
  write_refs fs fname m rs = (m, ra_of rs, su_of rs).
Proof.
  intros fs fname m rs. induction rs as [|[a r] rs IH]; intro H; [reflexivity|].
  assert (H' : forall a q, In (a, RField q) rs -> plookup q m = Some (dotted q)) by (intros; eapply H; right; eassumption).
  destruct r as [q|pl]; cbn [write_refs].
  - rewrite (H a q (or_introl eq_refl)). rewrite (IH H'). reflexivity.
  - rewrite (IH H'). reflexivity.
Qed.

Lemma write_fields_spec : forall lvl A m fs,
  (forall p l, In (p, ELeaf l) fs -> (lvl <=? l_level l)%Z = true ->
     (exists v, plookup p m = Some v) /\ forall a q, In (a, RField q) (l_refs l) -> plookup q m = Some (dotted q)) ->
  write_fields all_off lvl A m fs = Some (flat_map (wgroup lvl A) fs).
Proof.
  intros lvl A m fs. induction fs as [|[p e] fs IH]; intro H; [reflexivity|].
  assert (H' : forall p l, In (p, ELeaf l) fs -> (lvl <=? l_level l)%Z = true ->
     (exists v, plookup p m = Some v) /\ forall a q, In (a, RField q) (l_refs l) -> plookup q m = Some (dotted q))
    by (intros; eapply H; [right; eassumption|assumption]).
  specialize (IH H'). cbn [write_fields flat_map wgroup]. destruct e as [l|].
  - cbn [kept]. destruct (lvl <=? l_level l)%Z eqn:E; cbn [negb].
    + destruct (H p l (or_introl eq_refl) E) as [[v Hv] Hr].
      cbn [q_np_string all_off andb]. rewrite (write_refs_spec _ _ _ _ Hr). rewrite Hv.
      rewrite unit_attr_spec. rewrite IH. reflexivity.
    + exact IH.
  - cbn [kept negb]. destruct (enc_attr_spec (fields_dict lvl A p) eq_refl) as [X _]. rewrite X. rewrite IH. reflexivity.
Qed.

Lemma init_memo_in : forall lvl fs p l, In (p, ELeaf l) fs -> (lvl <=? l_level l)%Z = true ->
  exists v, plookup p (init_memo all_off lvl fs) = Some v.
Proof.
  intros lvl fs p l. induction fs as [|[p0 e0] fs IH]; intros Hin E; [destruct Hin|].
  unfold init_memo. cbn [flat_map]. fold (init_memo all_off lvl fs).
  destruct Hin as [Hin|Hin].
  - inversion Hin; subst. cbn [q_memo_all q_memo_shallow all_off orb negb andb]. rewrite E. cbn.
    rewrite path_eqb_refl. eexists; reflexivity.
  - destruct e0 as [l0|]; [|apply IH; assumption].
    cbn [q_memo_all q_memo_shallow all_off orb negb andb]. destruct (lvl <=? l_level l0)%Z; cbn; [|apply IH; assumption].
    destruct (path_eqb p p0); [eexists; reflexivity|apply IH; assumption].
Qed.

Lemma init_memo_lookup : forall lvl fs q l, plookup q fs = Some (ELeaf l) -> (lvl <=? l_level l)%Z = true ->
  plookup q (init_memo all_off lvl fs) = Some (dotted q).
Proof.
  intros lvl fs q l. induction fs as [|[p0 e0] fs IH]; cbn [plookup]; [discriminate|].
  unfold init_memo. cbn [flat_map]. fold (init_memo all_off lvl fs).
  destruct (path_eqb q p0) eqn:Eq.
  - intros H E. inversion H; subst. cbn [q_memo_all q_memo_shallow all_off orb negb andb]. rewrite E. cbn.
    rewrite Eq. apply path_eqb_eq in Eq. subst. reflexivity.
  - intros H E. destruct e0 as [l0|]; [|apply IH; assumption].
    cbn [q_memo_all q_memo_shallow all_off orb negb andb]. destruct (lvl <=? l_level l0)%Z; cbn; [|apply IH; assumption].
    rewrite Eq. apply IH; assumption.
Qed.

Lemma closed_spec : forall lvl d p l a q, closed lvl d = true -> In (p, ELeaf l) (d_fields d) ->
  (lvl <=? l_level l)%Z = true -> In (a, RField q) (l_refs l) ->
  exists l', plookup q (d_fields d) = Some (ELeaf l') /\ (lvl <=? l_level l')%Z = true.
Proof.
  intros lvl d p l a q H Hin E Hr. unfold closed in H. rewrite forallb_forall in H. specialize (H _ Hin). cbn in H.
  rewrite E in H. cbn in H. rewrite forallb_forall in H. specialize (H _ Hr). cbn in H.
  destruct (plookup q (d_fields d)) as [[l'|]|]; try discriminate. exists l'. auto.
Qed.

Lemma write_meta_spec : forall m, forallb (fun kt => encodable (snd kt)) m = true ->
  write_meta all_off m = Some (map (fun kt => (fst kt, enc_of (snd kt))) m).
Proof.
  induction m as [|[k t] m IH]; cbn [forallb write_meta map]; [reflexivity|].
  intro H. apply andb_true_iff in H. destruct H as [H1 H2]. cbn in H1.
  destruct (enc_attr_spec t H1) as [X _]. rewrite X. rewrite (IH H2). reflexivity.
Qed.

Lemma read_meta_spec : forall m, forallb (fun kt => encodable (snd kt)) m = true ->
  read_meta all_off (map (fun kt => (fst kt, enc_of (snd kt))) m) = Some m.
Proof.
  induction m as [|[k t] m IH]; cbn [forallb read_meta map]; [reflexivity|].
  intro H. apply andb_true_iff in H. destruct H as [H1 H2]. cbn in H1.
  destruct (enc_attr_spec t H1) as (_ & e & E & D). cbn [fst snd]. rewrite E. cbn [q_regex all_off]. rewrite D.
  rewrite (IH H2). reflexivity.
Qed.

Definition wfile (lvl : Z) (d : dataset) : h5file :=
  {| f_fields := enc_of (fields_dict lvl (d_fields d) []); f_numobs := d_numobs d;
     f_vars := enc_of (Dict (d_vars d)); f_version := d_version d;
     f_groups := flat_map (wgroup lvl (d_fields d)) (d_fields d);
     f_meta := map (fun kt => (fst kt, enc_of (snd kt))) (d_meta d) |}.

Lemma wf_meta : forall d, wf d = true -> forallb (fun kt => encodable (snd kt)) (d_meta d) = true.
Proof. intros d H. unfold wf in H. apply andb_true_iff in H. tauto. Qed.

Lemma write_spec : forall d lvl, wf d = true -> closed lvl d = true -> write all_off d lvl = Some (wfile lvl d).
Proof.
  intros d lvl W C. unfold write.
  rewrite write_fields_spec.
  - rewrite (write_meta_spec _ (wf_meta _ W)).
    destruct (enc_attr_spec (fields_dict lvl (d_fields d) []) eq_refl) as [X _]. rewrite X.
    destruct (enc_attr_spec (Dict (d_vars d)) eq_refl) as [Y _]. rewrite Y. reflexivity.
  - intros p l Hin E. split; [eapply init_memo_in; eassumption|].
    intros a q Hr. destruct (closed_spec _ _ _ _ _ _ C Hin E Hr) as (l' & P & E').
    eapply init_memo_lookup; eassumption.
Qed.

(* ------------------------------------------------------------------ read_group, unfolded once *)
Section Refs.
  Variable rg : rstate -> path -> h5leaf -> option (rstate * nat).
  Variable qs : quirks.
  Variable f : h5file.
  Variable p : path.
  Fixpoint refs_of (st : rstate) (ra : list (string * string)) {struct ra} : option (rstate * list (string * nat)) :=
    match ra with
    | [] => Some (st, [])
    | (a, nm) :: rest =>
        match (match lookup nm (memo st) with
               | Some id => Some (st, id)
               | None => match find_group qs f p nm with
                         | None => None
                         | Some (p', g') =>
                             match rg st p' g' with
                             | Some (st', id) => Some (add_memo nm id st', id)
                             | None => None
                             end
                         end
               end) with
        | None => None
        | Some (st1, id) => match refs_of st1 rest with
                            | Some (st2, ids) => Some (st2, (a, id) :: ids)
                            | None => None
                            end
        end
    end.
End Refs.

Lemma read_group_S : forall n qs f st p g,
  read_group (S n) qs f st p g =
  match refs_of (read_group n qs f) qs f p st (g_refattrs g) with
  | None => None
  | Some (st1, ids1) =>
      match read_subs (o_fieldname (g_obj g)) st1 (g_subs g) with
      | (st2, ids2) =>
          match new_obj {| r_pl := read_payload (g_obj g); r_refs := ids1 ++ ids2 |} st2 with
          | (st3, id) => Some (add_memo (o_fieldname (g_obj g)) id st3, id)
          end
      end
  end.
Proof. intros. reflexivity. Qed.

(* ------------------------------------------------------------------ the invariant of read *)
Local Open Scope nat_scope.

Section Read.
  Variable KL : list (path * leaf).        (* the leaves that are in the file *)
  Variable f : h5file.
  Variable rank : path -> nat.
  Hypothesis HKinj : forall q1 l1 q2 l2, In (q1, l1) KL -> In (q2, l2) KL -> dotted q1 = dotted q2 -> q1 = q2 /\ l1 = l2.
  Hypothesis Hfind : forall from q lq, In (q, lq) KL -> find_group all_off f from (dotted q) = Some (q, grp q lq).
  Hypothesis Hcl : forall q lq a q', In (q, lq) KL -> In (a, RField q') (l_refs lq) ->
     (exists lq', In (q', lq') KL) /\ rank q' < rank q.
  Hypothesis Hpn : forall q lq a pl, In (q, lq) KL -> In (a, ROwn pl) (l_refs lq) ->
     payload_ok a pl = true /\
     forall q' lq', In (q', lq') KL -> dotted q' <> a /\ dotted q' <> (dotted q ++ "." ++ a)%string.
  Hypothesis Hpl : forall q lq, In (q, lq) KL -> payload_ok (dotted q) (l_pl lq) = true.

  Definition mget (st : rstate) (q : path) : option nat := lookup (dotted q) (memo st).

  Definition priv (st : rstate) (id : nat) (pl : payload) : Prop :=
    id < next st /\ (exists o, nlookup id (heap st) = Some o /\ r_pl o = pl) /\
    forall q lq, In (q, lq) KL -> mget st q <> Some id.

  Definition goodo (st : rstate) (lq : leaf) (o : robj) : Prop :=
    r_pl o = l_pl lq /\ exists R1 R2, r_refs o = R1 ++ R2 /\
      Forall2 (fun (aq : string * path) (ai : string * nat) => fst aq = fst ai /\ mget st (snd aq) = Some (snd ai))
              (fld_of (l_refs lq)) R1 /\
      Forall2 (fun (ap : string * payload) (ai : string * nat) => fst ap = fst ai /\ priv st (snd ai) (snd ap))
              (own_of (l_refs lq)) R2.

  Definition good (st : rstate) (lq : leaf) (id : nat) : Prop :=
    exists o, nlookup id (heap st) = Some o /\ goodo st lq o.

  Record Inv (st : rstate) : Prop := {
    inv_heap : forall id o, nlookup id (heap st) = Some o -> id < next st;
    inv_fld : forall q lq id, In (q, lq) KL -> mget st q = Some id -> id < next st /\ good st lq id;
    inv_dist : forall q1 l1 q2 l2 id, In (q1, l1) KL -> In (q2, l2) KL ->
                 mget st q1 = Some id -> mget st q2 = Some id -> q1 = q2 }.

  Record ext (n : nat) (st st' : rstate) : Prop := {
    ext_next : next st <= next st';
    ext_heap : forall id, id < next st -> nlookup id (heap st') = nlookup id (heap st);
    ext_stab : forall q lq id, In (q, lq) KL -> mget st q = Some id -> mget st' q = Some id;
    ext_new : forall q lq id, In (q, lq) KL -> mget st q = None -> mget st' q = Some id -> next st <= id /\ rank q < n }.

  Lemma ext_refl : forall n st, ext n st st.
  Proof.
    intros n st. constructor; auto.
    intros q lq id _ H1 H2. rewrite H1 in H2. discriminate.
  Qed.

  Lemma ext_mono : forall n m st st', n <= m -> ext n st st' -> ext m st st'.
  Proof.
    intros n m st st' L [a b c d]. constructor; auto.
    intros q lq id H1 H2 H3. destruct (d q lq id H1 H2 H3). split; lia.
  Qed.

  Lemma ext_trans : forall n st st' st'', ext n st st' -> ext n st' st'' -> ext n st st''.
  Proof.
    intros n st st' st'' [a b c d] [a' b' c' d']. constructor.
    - lia.
    - intros id L. rewrite b' by lia. apply b. exact L.
    - intros q lq id Hin M. eapply c'; [eassumption|]. eapply c; eassumption.
    - intros q lq id Hin M M''. destruct (mget st' q) as [id'|] eqn:M'.
      + pose proof (c' q lq id' Hin M') as X. rewrite M'' in X. inversion X; subst. eapply d; eassumption.
      + destruct (d' q lq id Hin M' M''). split; lia.
  Qed.

  Lemma priv_ext : forall n st st' id pl, ext n st st' -> priv st id pl -> priv st' id pl.
  Proof.
    intros n st st' id pl [a b c d] (L & (o & Ho & Hp) & Hn). split; [lia|]. split.
    - exists o. rewrite b by exact L. auto.
    - intros q lq Hin M'. destruct (mget st q) as [id0|] eqn:M.
      + pose proof (c q lq id0 Hin M) as X. rewrite M' in X. inversion X; subst. exact (Hn q lq Hin M).
      + destruct (d q lq id Hin M M'). lia.
  Qed.

  Lemma goodo_ext : forall n st st' q lq o, ext n st st' -> In (q, lq) KL -> goodo st lq o -> goodo st' lq o.
  Proof.
    intros n st st' q lq o E Hin (Hp & R1 & R2 & Hr & F1 & F2). split; [exact Hp|]. exists R1, R2. split; [exact Hr|]. split.
    - eapply Forall2_impl_In_l; [|exact F1]. intros [a q'] ai Ha [H1 H2]. split; [exact H1|].
      apply in_fld_of in Ha. destruct (Hcl q lq a q' Hin Ha) as [[lq' Hq'] _].
      eapply ext_stab; eassumption.
    - eapply Forall2_impl_In_l; [|exact F2]. intros ap ai _ [H1 H2]. split; [exact H1|]. eapply priv_ext; eassumption.
  Qed.

  Lemma good_ext : forall n st st' q lq id, ext n st st' -> In (q, lq) KL -> id < next st -> good st lq id -> good st' lq id.
  Proof.
    intros n st st' q lq id E Hin L (o & Ho & G). exists o. split.
    - rewrite (ext_heap _ _ _ E) by exact L. exact Ho.
    - eapply goodo_ext; eassumption.
  Qed.

  (* a step that leaves heap, next and the lookups of field names alone *)
  Lemma feq_step : forall st st', heap st' = heap st -> next st' = next st ->
    (forall q lq, In (q, lq) KL -> mget st' q = mget st q) -> Inv st -> Inv st' /\ ext 0 st st'.
  Proof.
    intros st st' Hh Hn Hm I.
    assert (E : ext 0 st st').
    { constructor.
      - rewrite Hn. apply le_n.
      - intros. rewrite Hh. reflexivity.
      - intros q lq id Hin M. rewrite (Hm q lq Hin). exact M.
      - intros q lq id Hin M M'. rewrite (Hm q lq Hin) in M'. rewrite M in M'. discriminate. }
    split; [|exact E]. constructor.
    - intros id o H. rewrite Hh in H. rewrite Hn. eapply inv_heap; eassumption.
    - intros q lq id Hin M. rewrite (Hm q lq Hin) in M. destruct (inv_fld _ I q lq id Hin M) as [L G].
      split; [rewrite Hn; exact L|]. eapply good_ext; eassumption.
    - intros q1 l1 q2 l2 id H1 H2 M1 M2. rewrite (Hm _ _ H1) in M1. rewrite (Hm _ _ H2) in M2.
      eapply (inv_dist _ I); eassumption.
  Qed.

  Lemma mget_add : forall k id st q, mget (add_memo k id st) q = if String.eqb (dotted q) k then Some id else mget st q.
  Proof. reflexivity. Qed.

  (* registering a name that is not the name of a field *)
  Lemma addpriv_step : forall k id st, (forall q lq, In (q, lq) KL -> dotted q <> k) -> Inv st ->
    Inv (add_memo k id st) /\ ext 0 st (add_memo k id st).
  Proof.
    intros k id st Hk I. apply feq_step; try reflexivity; [|exact I].
    intros q lq Hin. rewrite mget_add. apply Hk in Hin. apply String.eqb_neq in Hin. rewrite Hin. reflexivity.
  Qed.

  (* registering a name again *)
  Lemma addsame_step : forall k id st, lookup k (memo st) = Some id -> Inv st ->
    Inv (add_memo k id st) /\ ext 0 st (add_memo k id st).
  Proof.
    intros k id st Hk I. apply feq_step; try reflexivity; [|exact I].
    intros q lq Hin. rewrite mget_add. destruct (String.eqb (dotted q) k) eqn:E; [|reflexivity].
    apply String.eqb_eq in E. unfold mget. rewrite E. symmetry. exact Hk.
  Qed.

  Lemma newobj_step : forall o st, Inv st -> Inv (fst (new_obj o st)) /\ ext 0 st (fst (new_obj o st)).
  Proof.
    intros o st I. cbn [new_obj fst].
    assert (E : ext 0 st {| memo := memo st; heap := (next st, o) :: heap st; next := S (next st) |}).
    { constructor; cbn [next heap memo].
      - lia.
      - intros id L. cbn [nlookup]. destruct (Nat.eqb id (next st)) eqn:X; [|reflexivity]. apply Nat.eqb_eq in X. lia.
      - intros q lq id _ M. exact M.
      - intros q lq id _ M M'. unfold mget in M, M'. cbn [memo] in M'. rewrite M in M'. discriminate. }
    split; [|exact E]. constructor.
    - cbn [next heap nlookup]. intros id o' H. destruct (Nat.eqb id (next st)) eqn:X.
      + apply Nat.eqb_eq in X. lia.
      + apply (inv_heap _ I) in H. lia.
    - intros q lq id Hin M. destruct (inv_fld _ I q lq id Hin M) as [L G]. split; [cbn [next]; lia|].
      eapply good_ext; eassumption.
    - intros q1 l1 q2 l2 id H1 H2 M1 M2. eapply (inv_dist _ I); eassumption.
  Qed.

  (* creating the object of the field q and registering it *)
  Lemma reg_step : forall st q lq o, Inv st -> In (q, lq) KL -> mget st q = None -> goodo st lq o ->
    let st' := add_memo (dotted q) (next st) (fst (new_obj o st)) in
    Inv st' /\ ext (S (rank q)) st st' /\ mget st' q = Some (next st).
  Proof.
    intros st q lq o I Hin M G st'.
    assert (Mg : forall q0, mget st' q0 = if String.eqb (dotted q0) (dotted q) then Some (next st) else mget st q0) by reflexivity.
    assert (E : ext (S (rank q)) st st').
    { constructor.
      - cbn. lia.
      - intros id L. cbn. destruct (Nat.eqb id (next st)) eqn:X; [|reflexivity]. apply Nat.eqb_eq in X. lia.
      - intros q0 l0 id H0 M0. rewrite Mg. destruct (String.eqb (dotted q0) (dotted q)) eqn:X; [|exact M0].
        apply String.eqb_eq in X. destruct (HKinj _ _ _ _ H0 Hin X) as [-> _]. rewrite M in M0. discriminate.
      - intros q0 l0 id H0 M0 M0'. rewrite Mg in M0'. destruct (String.eqb (dotted q0) (dotted q)) eqn:X.
        + apply String.eqb_eq in X. destruct (HKinj _ _ _ _ H0 Hin X) as [-> _]. inversion M0'; subst. split; lia.
        + rewrite M0 in M0'. discriminate. }
    split; [|split; [exact E|]].
    - constructor.
      + cbn. intros id o' H. destruct (Nat.eqb id (next st)) eqn:X.
        * apply Nat.eqb_eq in X. lia.
        * apply (inv_heap _ I) in H. lia.
      + intros q0 l0 id H0 M0. rewrite Mg in M0. destruct (String.eqb (dotted q0) (dotted q)) eqn:X.
        * apply String.eqb_eq in X. destruct (HKinj _ _ _ _ H0 Hin X) as [-> ->]. inversion M0; subst.
          split; [cbn; lia|]. exists o. split; [cbn; rewrite Nat.eqb_refl; reflexivity|].
          eapply goodo_ext; eassumption.
        * destruct (inv_fld _ I q0 l0 id H0 M0) as [L G0]. split; [cbn; lia|]. eapply good_ext; eassumption.
      + intros q1 l1 q2 l2 id H1 H2 M1 M2. rewrite Mg in M1, M2.
        destruct (String.eqb (dotted q1) (dotted q)) eqn:X1; destruct (String.eqb (dotted q2) (dotted q)) eqn:X2.
        * apply String.eqb_eq in X1. apply String.eqb_eq in X2.
          destruct (HKinj _ _ _ _ H1 Hin X1) as [-> _]. destruct (HKinj _ _ _ _ H2 Hin X2) as [-> _]. reflexivity.
        * inversion M1; subst. destruct (inv_fld _ I q2 l2 _ H2 M2). lia.
        * inversion M2; subst. destruct (inv_fld _ I q1 l1 _ H1 M1). lia.
        * eapply (inv_dist _ I); eassumption.
    - rewrite Mg. rewrite String.eqb_refl. reflexivity.
  Qed.

  Lemma read_subs_ok : forall fname ops st, Inv st ->
    (forall a pl, In (a, pl) ops -> payload_ok a pl = true /\
        forall q lq, In (q, lq) KL -> dotted q <> a /\ dotted q <> (fname ++ "." ++ a)%string) ->
    exists st' ids, read_subs fname st (map (fun ap => (fst ap, write_obj (fst ap) (snd ap))) ops) = (st', ids) /\
      Inv st' /\ ext 0 st st' /\
      Forall2 (fun (ap : string * payload) (ai : string * nat) => fst ap = fst ai /\ priv st' (snd ai) (snd ap)) ops ids.
  Proof.
    intros fname ops. induction ops as [|[a pl] ops IH]; intros st I H.
    - exists st, []. split; [reflexivity|]. split; [exact I|]. split; [apply ext_refl|constructor].
    - destruct (H a pl (or_introl eq_refl)) as [Hp Hk].
      assert (H' : forall a pl, In (a, pl) ops -> payload_ok a pl = true /\
        forall q lq, In (q, lq) KL -> dotted q <> a /\ dotted q <> (fname ++ "." ++ a)%string)
        by (intros; apply H; right; assumption).
      set (o := {| r_pl := read_payload (write_obj a pl); r_refs := [] |}).
      destruct (newobj_step o st I) as [I1 E1].
      destruct (addpriv_step a (next st) _ (fun q lq Hin => proj1 (Hk q lq Hin)) I1) as [I2 E2].
      destruct (addpriv_step (fname ++ "." ++ a)%string (next st) _ (fun q lq Hin => proj2 (Hk q lq Hin)) I2) as [I3 E3].
      destruct (IH _ I3 H') as (st' & ids & R & I' & E' & F).
      pose proof (ext_trans _ _ _ _ (ext_trans _ _ _ _ E1 E2) E3) as E03.
      exists st', ((a, next st) :: ids). split; [|split; [exact I'|split]].
      + cbn [map read_subs fst snd]. cbn [new_obj o_fieldname write_obj]. cbn [new_obj fst] in R. fold o. rewrite R. reflexivity.
      + eapply ext_trans; eassumption.
      + constructor; [|exact F]. split; [reflexivity|]. cbn [fst snd]. eapply priv_ext; [exact E'|].
        split; [cbn; lia|]. split.
        * exists o. split; [cbn; rewrite Nat.eqb_refl; reflexivity|]. cbn. apply payload_roundtrip. exact Hp.
        * intros q lq Hin M. destruct (mget st q) as [id0|] eqn:M0.
          -- pose proof (ext_stab _ _ _ E03 q lq id0 Hin M0) as X. rewrite M in X. inversion X; subst.
             destruct (inv_fld _ I q lq _ Hin M0). lia.
          -- destruct (ext_new _ _ _ E03 q lq _ Hin M0 M). lia.
  Qed.

  Lemma refs_ok : forall rg m from,
    (forall st q lq, In (q, lq) KL -> rank q < m -> Inv st -> mget st q = None ->
       exists st' id, rg st q (grp q lq) = Some (st', id) /\ Inv st' /\ ext (S (rank q)) st st' /\ mget st' q = Some id) ->
    forall fl st, Inv st -> (forall a q, In (a, q) fl -> (exists lq, In (q, lq) KL) /\ rank q < m) ->
    exists st' ids, refs_of rg all_off f from st (map (fun aq => (fst aq, dotted (snd aq))) fl) = Some (st', ids) /\
      Inv st' /\ ext m st st' /\
      Forall2 (fun (aq : string * path) (ai : string * nat) => fst aq = fst ai /\ mget st' (snd aq) = Some (snd ai)) fl ids.
  Proof.
    intros rg m from Hrg. induction fl as [|[a q] fl IH]; intros st I H.
    - exists st, []. split; [reflexivity|]. split; [exact I|]. split; [apply ext_refl|constructor].
    - destruct (H a q (or_introl eq_refl)) as [[lq Hq] Lr].
      assert (H' : forall a q, In (a, q) fl -> (exists lq, In (q, lq) KL) /\ rank q < m) by (intros; eapply H; right; eassumption).
      cbn [map refs_of fst snd]. destruct (lookup (dotted q) (memo st)) as [id|] eqn:M.
      + destruct (IH st I H') as (st' & ids & R & I' & E' & F). rewrite R. exists st', ((a, id) :: ids).
        split; [reflexivity|]. split; [exact I'|]. split; [exact E'|]. constructor; [|exact F].
        split; [reflexivity|]. cbn [fst snd]. eapply ext_stab; eassumption.
      + rewrite (Hfind from q lq Hq). destruct (Hrg st q lq Hq Lr I M) as (st1 & id & R1 & I1 & E1 & M1). rewrite R1.
        destruct (addsame_step (dotted q) id st1 M1 I1) as [I2 E2].
        destruct (IH _ I2 H') as (st' & ids & R & I' & E' & F). rewrite R. exists st', ((a, id) :: ids).
        split; [reflexivity|]. split; [exact I'|]. split.
        * eapply ext_trans; [|exact E']. eapply ext_trans; [eapply ext_mono; [|exact E1]; lia|eapply ext_mono; [|exact E2]; lia].
        * constructor; [|exact F]. split; [reflexivity|]. cbn [fst snd]. eapply ext_stab; [exact E'|exact Hq|].
          rewrite mget_add. rewrite String.eqb_refl. reflexivity.
  Qed.

  Lemma read_group_ok : forall n st q lq, In (q, lq) KL -> rank q < n -> Inv st -> mget st q = None ->
    exists st' id, read_group n all_off f st q (grp q lq) = Some (st', id) /\
      Inv st' /\ ext (S (rank q)) st st' /\ mget st' q = Some id.
  Proof.
    induction n as [|n IHn]; intros st q lq Hin L I M; [lia|].
    rewrite read_group_S. cbn [g_refattrs grp g_obj g_subs]. unfold ra_of, su_of. cbn [o_fieldname write_obj].
    assert (Hfl : forall a q', In (a, q') (fld_of (l_refs lq)) -> (exists lq', In (q', lq') KL) /\ rank q' < rank q).
    { intros a q' Ha. apply in_fld_of in Ha. eapply Hcl; eassumption. }
    destruct (refs_ok (read_group n all_off f) (rank q) q
               (fun st0 q0 l0 H0 L0 I0 M0 => IHn st0 q0 l0 H0 ltac:(lia) I0 M0) _ st I Hfl)
      as (st1 & ids1 & R1 & I1 & E1 & F1).
    rewrite R1.
    assert (M1 : mget st1 q = None).
    { destruct (mget st1 q) as [x|] eqn:X; [|reflexivity]. destruct (ext_new _ _ _ E1 q lq x Hin M X). lia. }
    assert (Hops : forall a pl, In (a, pl) (own_of (l_refs lq)) -> payload_ok a pl = true /\
        forall q' lq', In (q', lq') KL -> dotted q' <> a /\ dotted q' <> (dotted q ++ "." ++ a)%string).
    { intros a pl Ha. apply in_own_of in Ha. eapply Hpn; eassumption. }
    destruct (read_subs_ok (dotted q) _ st1 I1 Hops) as (st2 & ids2 & R2 & I2 & E2 & F2).
    rewrite R2.
    assert (M2 : mget st2 q = None).
    { destruct (mget st2 q) as [x|] eqn:X; [|reflexivity]. destruct (ext_new _ _ _ E2 q lq x Hin M1 X). lia. }
    set (o := {| r_pl := read_payload (write_obj (dotted q) (l_pl lq)); r_refs := ids1 ++ ids2 |}).
    assert (G : goodo st2 lq o).
    { split; [cbn; apply payload_roundtrip; eapply Hpl; eassumption|]. exists ids1, ids2. split; [reflexivity|]. split; [|exact F2].
      eapply Forall2_impl_In_l; [|exact F1]. intros [a q'] ai Ha [H1 H2]. split; [exact H1|].
      destruct (Hfl a q' Ha) as [[lq' Hq'] _]. eapply ext_stab; eassumption. }
    destruct (reg_step st2 q lq o I2 Hin M2 G) as (I3 & E3 & M3).
    exists (add_memo (dotted q) (next st2) (fst (new_obj o st2))), (next st2).
    split; [reflexivity|]. split; [exact I3|]. split; [|exact M3].
    eapply ext_trans; [|exact E3]. eapply ext_trans; [eapply ext_mono; [|exact E1]; lia|eapply ext_mono; [|exact E2]; lia].
  Qed.

  (* ---------------------------------------------------------------- the main loop *)
  Variable lvl : Z.
  Variable A : list (path * entry).
  Hypothesis Hrk : forall q lq, In (q, lq) KL -> rank q <= List.length (f_groups f).

  Definition relE (st : rstate) (pe : path * entry) (pr : path * rentry) : Prop :=
    fst pe = fst pr /\
    match snd pe with
    | EColl => snd pr = RColl
    | ELeaf l => exists id, snd pr = RLeaf (l_kind l) (l_level l) (l_unit l) (l_mult l) id /\
                            mget st (fst pe) = Some id /\ In (fst pe, l) KL
    end.

  Lemma relE_ext : forall n st st' pe pr, ext n st st' -> relE st pe pr -> relE st' pe pr.
  Proof.
    intros n st st' [p e] [p' r] E [H1 H2]. split; [exact H1|]. cbn [fst snd] in *. destruct e as [l|]; [|exact H2].
    destruct H2 as (id & Hr & M & Hin). exists id. split; [exact Hr|]. split; [|exact Hin]. eapply ext_stab; eassumption.
  Qed.

  Lemma read_fields_ok : forall es st,
    (forall p l, In (p, ELeaf l) es -> (lvl <=? l_level l)%Z = true -> In (p, l) KL /\ (1 <= l_level l <= 3)%Z) ->
    Inv st ->
    exists st' fl, read_fields all_off f st (flat_map (wgroup lvl A) es) = Some (st', fl) /\ Inv st' /\
      ext (S (S (List.length (f_groups f)))) st st' /\
      Forall2 (relE st') (filter (fun pe => kept lvl (snd pe)) es) fl.
  Proof.
    induction es as [|[p e] es IH]; intros st H I.
    - exists st, []. split; [reflexivity|]. split; [exact I|]. split; [apply ext_refl|constructor].
    - assert (H' : forall p l, In (p, ELeaf l) es -> (lvl <=? l_level l)%Z = true -> In (p, l) KL /\ (1 <= l_level l <= 3)%Z)
        by (intros; apply H; [right; assumption|assumption]).
      destruct e as [l|].
      + cbn [flat_map wgroup filter snd kept]. destruct (lvl <=? l_level l)%Z eqn:E.
        * destruct (H p l (or_introl eq_refl) E) as [Hin Hlv].
          cbn [app read_fields]. cbn [g_obj grp o_fieldname write_obj g_unit g_level g_kind g_mult].
          assert (X : exists st1 id,
                   match lookup (dotted p) (memo st) with
                   | Some id => Some (st, id)
                   | None => read_group (S (List.length (f_groups f))) all_off f st p (grp p l)
                   end = Some (st1, id) /\ Inv st1 /\ ext (S (S (List.length (f_groups f)))) st st1 /\ mget st1 p = Some id).
          { destruct (lookup (dotted p) (memo st)) as [id|] eqn:M.
            - exists st, id. split; [reflexivity|]. split; [exact I|]. split; [apply ext_refl|exact M].
            - pose proof (Hrk p l Hin) as Lr.
              destruct (read_group_ok (S (List.length (f_groups f))) st p l Hin ltac:(lia) I M) as (st1 & id & R & I1 & E1 & M1).
              exists st1, id. split; [exact R|]. split; [exact I1|]. split; [|exact M1].
              eapply ext_mono; [|exact E1]. lia. }
          destruct X as (st1 & id & R1 & I1 & E1 & M1). rewrite R1.
          set (st2 := match p with [top] => add_memo top id st1 | _ => st1 end).
          assert (X : Inv st2 /\ ext 0 st1 st2).
          { unfold st2. destruct p as [|top [|y p]]; try (split; [exact I1|apply ext_refl]).
            apply addsame_step; [exact M1|exact I1]. }
          destruct X as [I2 E2].
          rewrite read_unit_spec. rewrite (level_roundtrip _ Hlv).
          destruct (IH st2 H' I2) as (st' & fl & R & I' & E' & F). rewrite R.
          eexists st', (_ :: fl). split; [reflexivity|]. split; [exact I'|]. split.
          -- eapply ext_trans; [exact E1|]. eapply ext_trans; [eapply ext_mono; [|exact E2]; lia|exact E'].
          -- constructor; [|exact F]. split; [reflexivity|]. cbn [fst snd]. exists id. split; [reflexivity|]. split; [|exact Hin].
             eapply ext_stab; [exact E'|exact Hin|]. eapply ext_stab; [exact E2|exact Hin|exact M1].
        * apply IH; assumption.
      + cbn [flat_map wgroup filter snd kept app read_fields].
        destruct (IH st H' I) as (st' & fl & R & I' & E' & F). rewrite R.
        exists st', ((p, RColl) :: fl). split; [reflexivity|]. split; [exact I'|]. split; [exact E'|].
        constructor; [|exact F]. split; reflexivity.
  Qed.

  (* ---------------------------------------------------------------- the abstraction of the final state *)
  Lemma Forall2_map_In : forall {X Y Z} (R : X -> Y -> Prop) (g : Y -> Z) (h : X -> Z) xs ys,
    Forall2 R xs ys -> (forall x y, In x xs -> R x y -> g y = h x) -> map g ys = map h xs.
  Proof.
    intros X Y Z R g h xs ys F. induction F as [|x y xs ys Hxy F IHF]; intro HH; cbn; [reflexivity|]. f_equal.
    - apply HH; [left; reflexivity|assumption].
    - apply IHF. intros; apply HH; [right; assumption|assumption].
  Qed.

  Lemma perm_split : forall rs,
    Permutation (map (fun aq : string * path => (fst aq, RField (snd aq))) (fld_of rs) ++
                 map (fun ap : string * payload => (fst ap, ROwn (snd ap))) (own_of rs)) rs.
  Proof.
    induction rs as [|[a [q|pl]] rs IH].
    - constructor.
    - change (fld_of ((a, RField q) :: rs)) with ((a, q) :: fld_of rs).
      change (own_of ((a, RField q) :: rs)) with (own_of rs). cbn [map app fst snd]. apply perm_skip. exact IH.
    - change (fld_of ((a, ROwn pl) :: rs)) with (fld_of rs).
      change (own_of ((a, ROwn pl) :: rs)) with ((a, pl) :: own_of rs). cbn [map fst snd].
      apply Permutation_sym. apply Permutation_cons_app. apply Permutation_sym. exact IH.
  Qed.

  Section Abs.
    Variable st : rstate.
    Variable K : list (path * entry).
    Variable fl : list (path * rentry).
    Hypothesis I : Inv st.
    Hypothesis F : Forall2 (relE st) K fl.
    Hypothesis HK : forall q lq, In (q, lq) KL -> In (q, ELeaf lq) K.

    Lemma fl_leaf_inv : forall p k v u m id, In (p, RLeaf k v u m id) fl ->
      exists l, In (p, l) KL /\ mget st p = Some id /\ In (p, ELeaf l) K.
    Proof.
      intros p k v u m id Hin. destruct (Forall2_in_r _ _ _ _ F Hin) as ([p' e] & Hpe & [H1 H2]). cbn [fst snd] in *. subst p'.
      destruct e as [l|]; [|discriminate H2]. destruct H2 as (id' & Hr & M & HinK). inversion Hr; subst. exists l. auto.
    Qed.

    Lemma fl_of_field : forall q lq, In (q, lq) KL ->
      exists id, In (q, RLeaf (l_kind lq) (l_level lq) (l_unit lq) (l_mult lq) id) fl /\ mget st q = Some id.
    Proof.
      intros q lq Hin. destruct (Forall2_in_l _ _ _ _ F (HK q lq Hin)) as ([p' r] & Hpr & [H1 H2]). cbn [fst snd] in *. subst p'.
      destruct H2 as (id & Hr & M & _). subst r. exists id. auto.
    Qed.

    Lemma fid_field : forall q lq id, In (q, lq) KL -> mget st q = Some id -> field_of_id fl id = Some q.
    Proof.
      intros q lq id Hin M. unfold field_of_id.
      destruct (find (fun pe : path * rentry => match snd pe with RLeaf _ _ _ _ id' => Nat.eqb id id' | RColl => false end) fl)
        as [[p2 e2]|] eqn:Fd.
      - apply find_some in Fd. destruct Fd as [Hin2 Hp2]. cbn [snd] in Hp2. destruct e2 as [k v u m id2|]; [|discriminate].
        apply Nat.eqb_eq in Hp2. subst id2. destruct (fl_leaf_inv _ _ _ _ _ _ Hin2) as (l2 & H2 & M2 & _).
        f_equal. eapply (inv_dist _ I); eassumption.
      - exfalso. destruct (fl_of_field q lq Hin) as (id' & Hin' & M'). rewrite M in M'. inversion M'; subst id'.
        pose proof (find_none _ _ Fd _ Hin') as X. cbn [snd] in X. rewrite Nat.eqb_refl in X. discriminate.
    Qed.

    Lemma fid_priv : forall id pl, priv st id pl -> field_of_id fl id = None.
    Proof.
      intros id pl (_ & _ & Hn). unfold field_of_id.
      destruct (find (fun pe : path * rentry => match snd pe with RLeaf _ _ _ _ id' => Nat.eqb id id' | RColl => false end) fl)
        as [[p2 e2]|] eqn:Fd; [|reflexivity].
      exfalso. apply find_some in Fd. destruct Fd as [Hin2 Hp2]. cbn [snd] in Hp2. destruct e2 as [k v u m id2|]; [|discriminate].
      apply Nat.eqb_eq in Hp2. subst id2. destruct (fl_leaf_inv _ _ _ _ _ _ Hin2) as (l2 & H2 & M2 & _).
      exact (Hn _ _ H2 M2).
    Qed.

    Lemma abs_ok : forall pe pr, relE st pe pr -> entry_equiv (abs_entry (heap st) fl (snd pr)) (snd pe).
    Proof.
      intros [p e] [p' r] [H1 H2]. cbn [fst snd] in *. subst p'. destruct e as [l|]; [|subst r; exact Logic.I].
      destruct H2 as (id & Hr & M & Hin). subst r.
      destruct (inv_fld _ I p l id Hin M) as [L (o & Ho & Hp & R1 & R2 & Hrr & F1 & F2)].
      cbn [abs_entry]. rewrite Ho. cbn [entry_equiv l_kind l_level l_unit l_mult l_pl l_refs].
      repeat (split; [reflexivity|]). split; [exact Hp|].
      rewrite Hrr. rewrite map_app.
      rewrite (Forall2_map_In _ (abs_ref (heap st) fl) (fun aq : string * path => (fst aq, RField (snd aq))) _ _ F1).
      2:{ intros [a q'] [a' id'] Ha [X1 X2]. cbn [fst snd] in *. subst a'. apply in_fld_of in Ha.
          destruct (Hcl p l a q' Hin Ha) as [[lq' Hq'] _]. unfold abs_ref. cbn [fst snd].
          rewrite (fid_field q' lq' id' Hq' X2). reflexivity. }
      rewrite (Forall2_map_In _ (abs_ref (heap st) fl) (fun ap : string * payload => (fst ap, ROwn (snd ap))) _ _ F2).
      2:{ intros [a pl] [a' id'] _ [X1 X2]. cbn [fst snd] in *. subst a'. unfold abs_ref. cbn [fst snd].
          rewrite (fid_priv id' pl X2). destruct X2 as (_ & (o' & Ho' & Hp') & _). rewrite Ho'. rewrite Hp'. reflexivity. }
      apply perm_split.
    Qed.
  End Abs.
End Read.

(* ------------------------------------------------------------------ discharging the hypotheses of the section *)
Definition kleaves (lvl : Z) (fs : list (path * entry)) : list (path * leaf) :=
  flat_map (fun pe => match pe with
                      | (p, ELeaf l) => if (lvl <=? l_level l)%Z then [(p, l)] else []
                      | (_, EColl) => [] end) fs.

Lemma in_kleaves : forall lvl fs p l, In (p, l) (kleaves lvl fs) <-> In (p, ELeaf l) fs /\ (lvl <=? l_level l)%Z = true.
Proof.
  intros lvl fs p l. unfold kleaves. rewrite in_flat_map. split.
  - intros [[p0 [l0|]] [Hin H]]; [|destruct H]. destruct (lvl <=? l_level l0)%Z eqn:E; [|destruct H].
    destruct H as [H|[]]. inversion H; subst. auto.
  - intros [Hin E]. exists (p, ELeaf l). split; [exact Hin|]. rewrite E. left. reflexivity.
Qed.

Definition brank (rank : path -> nat) (KL : list (path * leaf)) (p : path) : nat :=
  List.length (filter (fun ql : path * leaf => rank (fst ql) <? rank p) KL).

Lemma filter_length_le : forall {X} (f g : X -> bool) l, (forall x, In x l -> f x = true -> g x = true) ->
  List.length (filter f l) <= List.length (filter g l).
Proof.
  intros X f g l. induction l as [|a l IH]; intro H; cbn; [lia|].
  assert (IH' : List.length (filter f l) <= List.length (filter g l)) by (apply IH; intros; apply H; [right|]; assumption).
  destruct (f a) eqn:Fa.
  - rewrite (H a (or_introl eq_refl) Fa). cbn. lia.
  - destruct (g a); cbn; lia.
Qed.

Lemma filter_length_lt : forall {X} (f g : X -> bool) l y, (forall x, In x l -> f x = true -> g x = true) ->
  In y l -> f y = false -> g y = true -> List.length (filter f l) < List.length (filter g l).
Proof.
  intros X f g l y. induction l as [|a l IH]; intros H Hin Fy Gy; [destruct Hin|]. cbn.
  assert (H' : forall x, In x l -> f x = true -> g x = true) by (intros; apply H; [right|]; assumption).
  pose proof (filter_length_le f g l H') as Le.
  destruct Hin as [->|Hin].
  - rewrite Fy, Gy. cbn. lia.
  - specialize (IH H' Hin Fy Gy). destruct (f a) eqn:Fa.
    + rewrite (H a (or_introl eq_refl) Fa). cbn. lia.
    + destruct (g a); cbn; lia.
Qed.

Lemma filter_length_all : forall {X} (f : X -> bool) l, List.length (filter f l) <= List.length l.
Proof. intros X f l. induction l as [|a l IH]; cbn; [lia|]. destruct (f a); cbn; lia. Qed.

Lemma kleaves_length : forall lvl A es, List.length (kleaves lvl es) <= List.length (flat_map (wgroup lvl A) es).
Proof.
  intros lvl A es. induction es as [|[p [l|]] es IH]; cbn [kleaves flat_map wgroup]; [cbn; lia| |].
  - fold (kleaves lvl es). destruct (lvl <=? l_level l)%Z; cbn [app List.length]; lia.
  - fold (kleaves lvl es). cbn [app List.length]. lia.
Qed.

Lemma wf_nodup : forall d, wf d = true -> nodup_paths (map fst (d_fields d)) = true.
Proof. intros d H. unfold wf in H. rewrite !andb_true_iff in H. tauto. Qed.

Lemma wf_entry : forall d p e, wf d = true -> In (p, e) (d_fields d) -> forallb comp_ok p = true /\ p <> [].
Proof.
  intros d p e H Hin. unfold wf in H. rewrite !andb_true_iff in H. destruct H as [[_ H] _].
  rewrite forallb_forall in H. specialize (H _ Hin). cbv beta iota in H. rewrite !andb_true_iff in H.
  destruct H as [[H1 H2] _]. split; [exact H2|]. intro X. subst p. discriminate.
Qed.

Lemma wf_leaf : forall d p l, wf d = true -> In (p, ELeaf l) (d_fields d) ->
  (1 <= l_level l <= 3)%Z /\ existsb (String.eqb (dotted p)) (attr_names d) = false /\
  forallb comp_ok (map fst (l_refs l)) = true /\ payload_ok (dotted p) (l_pl l) = true /\
  forallb (fun ar : string * ref => match snd ar with ROwn pl => payload_ok (fst ar) pl | _ => true end) (l_refs l) = true.
Proof.
  intros d p l H Hin. unfold wf in H. rewrite !andb_true_iff in H. destruct H as [[_ H] _].
  rewrite forallb_forall in H. specialize (H _ Hin). cbv beta iota in H. rewrite !andb_true_iff in H.
  destruct H as [_ [[[[[[[L1 L2] N] ND] Cc] P] O] U]].
  apply Z.leb_le in L1. apply Z.leb_le in L2. apply negb_true_iff in N. repeat split; assumption.
Qed.

Lemma find_group_spec : forall lvl A es q lq,
  nodup_paths (map fst es) = true ->
  (forall p e, In (p, e) es -> dotted p = dotted q -> p = q) ->
  In (q, ELeaf lq) es -> (lvl <=? l_level lq)%Z = true ->
  find (fun pe : path * h5entry => String.eqb (dotted (fst pe)) (dotted q)) (flat_map (wgroup lvl A) es)
  = Some (q, HLeaf (grp q lq)).
Proof.
  intros lvl A es q lq. induction es as [|[p e] es IH]; intros ND Hinj Hin E; [destruct Hin|].
  assert (ND' : nodup_paths (map fst es) = true) by (cbn in ND; apply andb_true_iff in ND; tauto).
  assert (Hinj' : forall p e, In (p, e) es -> dotted p = dotted q -> p = q) by (intros; eapply Hinj; [right; eassumption|assumption]).
  cbn [flat_map wgroup]. destruct e as [l|].
  - destruct (lvl <=? l_level l)%Z eqn:El.
    + cbn [app find fst]. destruct (String.eqb (dotted p) (dotted q)) eqn:X.
      * apply String.eqb_eq in X. pose proof (Hinj p _ (or_introl eq_refl) X) as Y. subst p.
        pose proof (nodup_paths_fun _ q (ELeaf l) (ELeaf lq) ND (or_introl eq_refl) Hin) as Z. inversion Z; subst. reflexivity.
      * destruct Hin as [Hin|Hin]; [inversion Hin; subst; rewrite String.eqb_refl in X; discriminate|]. apply IH; assumption.
    + cbn [app]. destruct Hin as [Hin|Hin]; [inversion Hin; subst; rewrite E in El; discriminate|]. apply IH; assumption.
  - cbn [app find fst]. destruct (String.eqb (dotted p) (dotted q)) eqn:X.
    + apply String.eqb_eq in X. pose proof (Hinj p _ (or_introl eq_refl) X) as Y. subst p.
      pose proof (nodup_paths_fun _ q EColl (ELeaf lq) ND (or_introl eq_refl) Hin) as Z. discriminate.
    + destruct Hin as [Hin|Hin]; [discriminate|]. apply IH; assumption.
Qed.

Lemma restrict_fields_closed : forall lvl d, closed lvl d = true ->
  d_fields (restrict lvl d) = filter (fun pe => kept lvl (snd pe)) (d_fields d).
Proof.
  intros lvl d C. unfold restrict. cbn [d_fields].
  assert (G : forall es, (forall p l, In (p, ELeaf l) es -> In (p, ELeaf l) (d_fields d)) ->
     flat_map (fun pe : path * entry => match pe with
        | (p, ELeaf l) => if (lvl <=? l_level l)%Z
                          then [(p, ELeaf {| l_kind := l_kind l; l_level := l_level l; l_unit := l_unit l; l_mult := l_mult l;
                                             l_pl := l_pl l; l_refs := map (restrict_ref lvl (d_fields d)) (l_refs l) |})]
                          else []
        | (p, EColl) => [(p, EColl)] end) es = filter (fun pe => kept lvl (snd pe)) es).
  { induction es as [|[p [l|]] es IH]; intro H; [reflexivity| |].
    - cbn [flat_map filter snd kept]. rewrite IH by (intros; apply H; right; assumption).
      destruct (lvl <=? l_level l)%Z eqn:E; [|reflexivity]. cbn [app]. f_equal. f_equal. f_equal.
      assert (X : map (restrict_ref lvl (d_fields d)) (l_refs l) = l_refs l).
      { rewrite <- (map_id (l_refs l)) at 2. apply map_ext_in. intros [a [q|pl]] Ha; [|reflexivity].
        destruct (closed_spec _ _ _ _ _ _ C (H p l (or_introl eq_refl)) E Ha) as (l' & P & E').
        cbn [restrict_ref]. rewrite P. rewrite E'. reflexivity. }
      rewrite X. destruct l; reflexivity.
    - cbn [flat_map filter snd kept app]. rewrite IH by (intros; apply H; right; assumption). reflexivity. }
  apply G. auto.
Qed.

Lemma Forall2_flip_map : forall {X Y Z} (R : X -> Y -> Prop) (R' : Z -> X -> Prop) (g : Y -> Z) xs ys,
  Forall2 R xs ys -> (forall x y, R x y -> R' (g y) x) -> Forall2 R' (map g ys) xs.
Proof. intros X Y Z R R' g xs ys F H. induction F; cbn; constructor; auto. Qed.

Lemma Inv_st0 : forall KL, Inv KL st0.
Proof. intro KL. constructor; cbn; intros; discriminate. Qed.

Lemma dotted_inj_fields : forall d p e q e', wf d = true -> In (p, e) (d_fields d) -> In (q, e') (d_fields d) ->
  dotted p = dotted q -> p = q.
Proof.
  intros d p e q e' W Hp Hq E. apply dotted_inj; [eapply wf_entry; eassumption|eapply wf_entry; eassumption|exact E].
Qed.

(* the state after reading the written file *)
Lemma read_state_ok : forall d lvl rank, wf d = true -> closed lvl d = true -> ranked rank d -> no_shadow d ->
  exists st fl, read_state all_off (wfile lvl d) = Some (st, fl) /\ Inv (kleaves lvl (d_fields d)) st /\
    Forall2 (relE (kleaves lvl (d_fields d)) st) (filter (fun pe => kept lvl (snd pe)) (d_fields d)) fl /\
    (forall q lq a q', In (q, lq) (kleaves lvl (d_fields d)) -> In (a, RField q') (l_refs lq) ->
       (exists lq', In (q', lq') (kleaves lvl (d_fields d))) /\
       brank rank (kleaves lvl (d_fields d)) q' < brank rank (kleaves lvl (d_fields d)) q).
Proof.
  intros d lvl rank W C Rk NS.
  set (KL := kleaves lvl (d_fields d)). set (rk := brank rank KL).
  assert (HKinj : forall q1 l1 q2 l2, In (q1, l1) KL -> In (q2, l2) KL -> dotted q1 = dotted q2 -> q1 = q2 /\ l1 = l2).
  { intros q1 l1 q2 l2 H1 H2 E. apply in_kleaves in H1. apply in_kleaves in H2. destruct H1 as [H1 _]. destruct H2 as [H2 _].
    pose proof (dotted_inj_fields _ _ _ _ _ W H1 H2 E) as X. subst q2. split; [reflexivity|].
    pose proof (nodup_paths_fun _ _ _ _ (wf_nodup _ W) H1 H2) as Y. inversion Y. reflexivity. }
  assert (Hfind : forall from q lq, In (q, lq) KL -> find_group all_off (wfile lvl d) from (dotted q) = Some (q, grp q lq)).
  { intros from q lq Hin. apply in_kleaves in Hin. destruct Hin as [Hin E].
    unfold find_group. cbn [q_parent_lookup all_off f_groups wfile].
    rewrite (find_group_spec lvl (d_fields d) (d_fields d) q lq (wf_nodup _ W)); [reflexivity| |exact Hin|exact E].
    intros p e Hp X. eapply dotted_inj_fields; eassumption. }
  assert (Hcl : forall q lq a q', In (q, lq) KL -> In (a, RField q') (l_refs lq) -> (exists lq', In (q', lq') KL) /\ rk q' < rk q).
  { intros q lq a q' Hin Ha. apply in_kleaves in Hin. destruct Hin as [Hin E].
    destruct (closed_spec _ _ _ _ _ _ C Hin E Ha) as (l' & P & E'). apply plookup_in in P.
    assert (Hq' : In (q', l') KL) by (apply in_kleaves; auto).
    split; [exists l'; exact Hq'|]. pose proof (Rk q lq a q' Hin Ha) as Lt.
    unfold rk, brank. apply filter_length_lt with (y := (q', l')).
    - intros x _ Hx. apply Nat.ltb_lt in Hx. apply Nat.ltb_lt. lia.
    - exact Hq'.
    - cbn [fst]. apply Nat.ltb_ge. lia.
    - cbn [fst]. apply Nat.ltb_lt. exact Lt. }
  assert (Hpn : forall q lq a pl, In (q, lq) KL -> In (a, ROwn pl) (l_refs lq) ->
     payload_ok a pl = true /\
     forall q' lq', In (q', lq') KL -> dotted q' <> a /\ dotted q' <> (dotted q ++ "." ++ a)%string).
  { intros q lq a pl Hin Ha. apply in_kleaves in Hin. destruct Hin as [Hin E].
    destruct (wf_leaf _ _ _ W Hin) as (_ & _ & Cn & _ & O). split.
    - rewrite forallb_forall in O. exact (O _ Ha).
    - intros q' lq' Hq'. apply in_kleaves in Hq'. destruct Hq' as [Hq' _].
      destruct (wf_leaf _ _ _ W Hq') as (_ & N & _). split.
      + intro X. assert (Y : existsb (String.eqb (dotted q')) (attr_names d) = true).
        { apply existsb_exists. exists a. split; [|apply String.eqb_eq; exact X].
          unfold attr_names. apply in_flat_map. exists (q, ELeaf lq). split; [exact Hin|].
          apply in_map_iff. exists (a, ROwn pl). auto. }
        rewrite Y in N. discriminate.
      + intro X. destruct (wf_entry _ _ _ W Hin) as [Cq Nq]. destruct (wf_entry _ _ _ W Hq') as [Cq' _].
        rewrite <- (dotted_snoc q a Nq) in X. apply dotted_inj in X.
        * exact (NS q lq a pl q' _ Hin Ha Hq' X).
        * exact Cq'.
        * rewrite forallb_app. rewrite Cq. cbn. rewrite andb_true_r. rewrite forallb_forall in Cn. apply Cn.
          apply in_map_iff. exists (a, ROwn pl). auto. }
  assert (Hpl : forall q lq, In (q, lq) KL -> payload_ok (dotted q) (l_pl lq) = true).
  { intros q lq Hin. apply in_kleaves in Hin. destruct Hin as [Hin _]. destruct (wf_leaf _ _ _ W Hin) as (_ & _ & _ & P & _). exact P. }
  assert (Hrk : forall q lq, In (q, lq) KL -> rk q <= List.length (f_groups (wfile lvl d))).
  { intros q lq _. unfold rk, brank. cbn [f_groups wfile].
    eapply Nat.le_trans; [apply filter_length_all|]. apply kleaves_length. }
  assert (Hes : forall p l, In (p, ELeaf l) (d_fields d) -> (lvl <=? l_level l)%Z = true -> In (p, l) KL /\ (1 <= l_level l <= 3)%Z).
  { intros p l Hin E. split; [apply in_kleaves; auto|]. destruct (wf_leaf _ _ _ W Hin) as (L & _). exact L. }
  destruct (read_fields_ok KL (wfile lvl d) rk HKinj Hfind Hcl Hpn Hpl lvl (d_fields d) Hrk (d_fields d) st0 Hes (Inv_st0 KL))
    as (st & fl & R & I & _ & F).
  exists st, fl. split; [exact R|]. split; [exact I|]. split; [exact F|exact Hcl].
Qed.

Lemma kept_in_K : forall lvl d q lq, In (q, lq) (kleaves lvl (d_fields d)) ->
  In (q, ELeaf lq) (filter (fun pe => kept lvl (snd pe)) (d_fields d)).
Proof. intros lvl d q lq H. apply in_kleaves in H. destruct H as [H E]. apply filter_In. split; [exact H|exact E]. Qed.

(* ------------------------------------------------------------------ the round trip *)
Theorem file_roundtrip_lemma : forall d lvl rank, wf d = true -> closed lvl d = true -> ranked rank d -> no_shadow d ->
  exists f, write all_off d lvl = Some f /\
  exists d', read all_off f = Some d' /\ dataset_equiv d' (restrict lvl d).
Proof.
  intros d lvl rank W C Rk NS. exists (wfile lvl d). split; [apply write_spec; assumption|].
  destruct (read_state_ok d lvl rank W C Rk NS) as (st & fl & R & I & F & Hcl).
  unfold read. rewrite R. cbn [f_meta f_vars f_numobs f_version wfile].
  rewrite (read_meta_spec _ (wf_meta _ W)).
  destruct (enc_attr_spec (Dict (d_vars d)) eq_refl) as (_ & e & E & D). rewrite E. cbn [q_regex all_off]. rewrite D.
  eexists. split; [reflexivity|]. unfold dataset_equiv. cbn [d_fields d_meta d_vars d_numobs d_version].
  split; [|repeat split; reflexivity].
  rewrite (restrict_fields_closed _ _ C).
  eapply Forall2_flip_map; [exact F|]. intros pe pr Hr. cbn [fst snd]. split; [symmetry; exact (proj1 Hr)|].
  eapply abs_ok; [exact Hcl|exact I|exact F|apply kept_in_K|exact Hr].
Qed.

(* a reference to a field is, after reading, a reference to THE object of that field *)
Theorem reference_identity_lemma : forall d lvl rank f st fl,
  wf d = true -> closed lvl d = true -> ranked rank d -> no_shadow d ->
  write all_off d lvl = Some f -> read_state all_off f = Some (st, fl) ->
  forall p l a q, In (p, ELeaf l) (d_fields d) -> (lvl <=? l_level l)%Z = true -> In (a, RField q) (l_refs l) ->
  exists k v u m idp k' v' u' m' idq o,
    In (p, RLeaf k v u m idp) fl /\ In (q, RLeaf k' v' u' m' idq) fl /\
    nlookup idp (heap st) = Some o /\ In (a, idq) (r_refs o).
Proof.
  intros d lvl rank f st fl W C Rk NS Wr Rd p l a q Hin E Ha.
  rewrite (write_spec _ _ W C) in Wr. inversion Wr; subst f. clear Wr.
  destruct (read_state_ok d lvl rank W C Rk NS) as (st' & fl' & R & I & F & Hcl).
  rewrite R in Rd. inversion Rd; subst st' fl'. clear Rd.
  assert (Hp : In (p, l) (kleaves lvl (d_fields d))) by (apply in_kleaves; auto).
  destruct (fl_of_field _ _ _ _ F (kept_in_K lvl d) p l Hp) as (idp & Hfp & Mp).
  destruct (Hcl p l a q Hp Ha) as [[lq Hq] _].
  destruct (fl_of_field _ _ _ _ F (kept_in_K lvl d) q lq Hq) as (idq & Hfq & Mq).
  destruct (inv_fld _ _ I p l idp Hp Mp) as [_ (o & Ho & _ & R1 & R2 & Hrr & F1 & _)].
  assert (Hfa : In (a, q) (fld_of (l_refs l))) by (apply in_fld_of; exact Ha).
  destruct (Forall2_in_l _ _ _ _ F1 Hfa) as ([a' id'] & Hi & [X1 X2]). cbn [fst snd] in *. subst a'.
  rewrite Mq in X2. inversion X2; subst id'.
  do 11 eexists. split; [exact Hfp|]. split; [exact Hfq|]. split; [exact Ho|].
  rewrite Hrr. apply in_or_app. left. exact Hi.
Qed.

(* different fields are read as different objects *)
Theorem field_ids_distinct_lemma : forall d lvl rank f st fl,
  wf d = true -> closed lvl d = true -> ranked rank d -> no_shadow d ->
  write all_off d lvl = Some f -> read_state all_off f = Some (st, fl) ->
  forall p1 k1 v1 u1 m1 id1 p2 k2 v2 u2 m2 id2,
  In (p1, RLeaf k1 v1 u1 m1 id1) fl -> In (p2, RLeaf k2 v2 u2 m2 id2) fl -> p1 <> p2 -> id1 <> id2.
Proof.
  intros d lvl rank f st fl W C Rk NS Wr Rd p1 k1 v1 u1 m1 id1 p2 k2 v2 u2 m2 id2 H1 H2 Ne Eq.
  rewrite (write_spec _ _ W C) in Wr. inversion Wr; subst f. clear Wr.
  destruct (read_state_ok d lvl rank W C Rk NS) as (st' & fl' & R & I & F & Hcl).
  rewrite R in Rd. inversion Rd; subst st' fl'. clear Rd.
  destruct (fl_leaf_inv _ _ _ _ F _ _ _ _ _ _ H1) as (l1 & K1 & M1 & _).
  destruct (fl_leaf_inv _ _ _ _ F _ _ _ _ _ _ H2) as (l2 & K2 & M2 & _).
  subst id2. apply Ne. eapply (inv_dist _ _ I); eassumption.
Qed.
